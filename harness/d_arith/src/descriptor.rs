//! C32: space descriptors. One VM layout per process (`--layout l32|wide|l64`), installed through
//! the public `MMTKBuilder::set_vm_layout` before anything reads the layout.
//!
//!   LY {"ev":"LY","layout":name,"force":0/1,"hs":heap start chunk,"he":heap end chunk,"lse":log
//!       space extent,"lchunk":22}
//!   CD {"ev":"CD","sc":start chunk,"ns":[chunk counts],"st_c":[get_start >> lchunk],
//!       "st_lo":[get_start & chunk mask],"ex_c":[get_extent >> lchunk],"ex_lo":[..],
//!       "cont":[0/1],"hi":[0/1],"empty":[0/1]}      -1 in st_c = the call panicked
//!   DD {"ev":"DD","raws":[limbs of the raw word],"idx":[get_index],"cont":[..],"hi":[..],"empty":[..]}
//! Chunk indices are < 2^25 for 47-bit addresses, so they travel as plain integers.
use crate::{limbs_list, quiet};
use mmtk::util::heap::vm_layout::{vm_layout, VMLayout, BYTES_IN_CHUNK, LOG_BYTES_IN_CHUNK};
use mmtk::util::Address;
use mmtk::verif::SpaceDescriptor;
use vcommon::*;

fn addr(v: usize) -> Address {
    unsafe { Address::from_usize(v) }
}

fn cd_row(trace: &Trace, sc: usize, ns: &[usize]) {
    let mut st_c = vec![];
    let mut st_lo = vec![];
    let mut ex_c = vec![];
    let mut ex_lo = vec![];
    let mut cont = vec![];
    let mut hi = vec![];
    let mut empty = vec![];
    for n in ns {
        let n = *n;
        let r = quiet(move || {
            let start = addr(sc << LOG_BYTES_IN_CHUNK);
            let end = addr((sc + n) << LOG_BYTES_IN_CHUNK);
            let d = SpaceDescriptor::create_descriptor_from_heap_range(start, end);
            (d.get_start().as_usize(), d.get_extent(), d.is_contiguous(), d.is_contiguous_hi(), d.is_empty())
        });
        match r {
            Some((s, e, c, h, em)) => {
                st_c.push((s >> LOG_BYTES_IN_CHUNK).min(1 << 30) as i64);
                st_lo.push((s & (BYTES_IN_CHUNK - 1)) as i64);
                ex_c.push((e >> LOG_BYTES_IN_CHUNK).min(1 << 30) as i64);
                ex_lo.push((e & (BYTES_IN_CHUNK - 1)) as i64);
                cont.push(c as i64);
                hi.push(h as i64);
                empty.push(em as i64);
            }
            None => {
                st_c.push(-1);
                st_lo.push(-1);
                ex_c.push(-1);
                ex_lo.push(-1);
                cont.push(-1);
                hi.push(-1);
                empty.push(-1);
            }
        }
    }
    trace.push(
        Obj::new("CD")
            .uint("sc", sc as u64)
            .ints("ns", ns.iter().map(|n| *n as i64))
            .ints("st_c", st_c)
            .ints("st_lo", st_lo)
            .ints("ex_c", ex_c)
            .ints("ex_lo", ex_lo)
            .ints("cont", cont)
            .ints("hi", hi)
            .ints("empty", empty)
            .finish(),
    );
}

fn dd_row(trace: &Trace, count: usize) {
    let ds: Vec<SpaceDescriptor> = (0..count).map(|_| SpaceDescriptor::create_descriptor()).collect();
    trace.push(
        Obj::new("DD")
            .json("raws", &limbs_list(ds.iter().map(|d| Some(d.verif_raw()))))
            .ints("idx", ds.iter().map(|d| d.get_index().min(1 << 30) as i64))
            .ints("cont", ds.iter().map(|d| d.is_contiguous() as i64))
            .ints("hi", ds.iter().map(|d| d.is_contiguous_hi() as i64))
            .ints("empty", ds.iter().map(|d| d.is_empty() as i64))
            .finish(),
    );
}

/// chunk counts to try for a start chunk: all (thorough) or a stratified sample.
fn counts(rng: &mut Rng, all: bool, max_n: usize, to_top: Option<usize>) -> Vec<usize> {
    if max_n == 0 {
        return vec![];
    }
    if all {
        return (1..=max_n).collect();
    }
    let mut ns: Vec<usize> = (1..=16).collect();
    for k in 4..=10 {
        let p = 1usize << k;
        ns.extend([p - 1, p, p + 1]);
    }
    ns.extend([max_n, max_n.saturating_sub(1), 1000, 1022, 1023]);
    if let Some(t) = to_top {
        ns.extend([t, t + 1, t.saturating_sub(1)]);
    }
    for _ in 0..12 {
        ns.push(rng.range(1, max_n as u64) as usize);
    }
    ns.retain(|n| *n >= 1 && *n <= max_n);
    ns.sort();
    ns.dedup();
    ns
}

pub fn run() {
    let out = arg_or("out", "descriptor.ndjson");
    let layout = arg_or("layout", "l32");
    let all = flag("all");
    let mut rng = Rng::new(seed_from_env());
    let trace = Trace::new();

    let mut builder = mmtk::MMTKBuilder::new_no_env_vars();
    match layout.as_str() {
        "l32" => builder.set_vm_layout(VMLayout::new_32bit()),
        "wide" => builder.set_vm_layout(VMLayout {
            log_address_space: 47,
            heap_start: addr(0x4000_0000),
            heap_end: addr(0x2000_0000_0000),
            log_space_extent: 41,
            force_use_contiguous_spaces: false,
        }),
        "l64" => {} // the default 64-bit layout
        _ => {
            eprintln!("unknown layout");
            std::process::exit(2);
        }
    }
    let ly = vm_layout();
    let hs = ly.heap_start.as_usize() >> LOG_BYTES_IN_CHUNK;
    let he = ly.heap_end.as_usize() >> LOG_BYTES_IN_CHUNK;
    trace.push(
        Obj::new("LY")
            .str("layout", &layout)
            .uint("force", ly.force_use_contiguous_spaces as u64)
            .uint("hs", hs as u64)
            .uint("he", he as u64)
            .uint("lse", ly.log_space_extent as u64)
            .uint("lchunk", LOG_BYTES_IN_CHUNK as u64)
            .finish(),
    );
    dd_row(&trace, 300);
    match layout.as_str() {
        "l32" => {
            // every chunk-aligned start below 2^32 (start chunk 1..1023) x chunk counts 1..1023
            // with the range ending at or below 2^32
            for sc in 1..1024usize {
                let max_n = (1024 - sc).min(1023);
                let to_top = if he > sc { Some(he - sc) } else { None };
                // inside the layout's heap range the counts are always exhaustive
                let in_heap = sc >= hs && sc < he;
                let ns = counts(&mut rng, all || (in_heap && sc % 4 == 0), max_n, to_top);
                for c in ns.chunks(512) {
                    cd_row(&trace, sc, c);
                }
                if sc == 512 {
                    dd_row(&trace, 300);
                }
            }
        }
        "wide" => {
            // starts m * 2^e (odd mantissa m < 2^14) up to 47-bit addresses
            let mstep = if all { 2 } else { 62 };
            let mut m = 1usize;
            while m < (1 << 14) {
                let mut e = 0usize;
                while (m << e) < (1usize << 25) {
                    let sc = m << e;
                    let to_top = if he > sc { Some(he - sc) } else { None };
                    let mut ns = vec![1usize, 2, 3, 511, 512, 513, 1022, 1023];
                    if let Some(t) = to_top {
                        if t <= 1023 {
                            ns.push(t);
                        }
                    }
                    ns.push(rng.range(1, 1023) as usize);
                    cd_row(&trace, sc, &ns);
                    e += 1;
                }
                m += mstep;
                if !all && m % 2 == 0 {
                    m += 1;
                }
            }
            // ranges that end exactly at heap_end
            for n in 1..1024usize {
                if he > n {
                    cd_row(&trace, he - n, &[n]);
                }
            }
            dd_row(&trace, 300);
        }
        _ => {
            // 64-bit layout: whole space slots [i << lse, (i+1) << lse)
            let per = 1usize << (ly.log_space_extent - LOG_BYTES_IN_CHUNK);
            let mut i = 1usize;
            while (i + 1) * per <= he {
                cd_row(&trace, i * per, &[per]);
                i += 1;
            }
            dd_row(&trace, 300);
        }
    }
    dd_row(&trace, 400);
    let n = trace.write_to(&out).expect("write trace");
    println!("rows={}", n);
}
