//! A stub VM binding (after /repo/docs/dummyvm) parameterised by the alignment constants that the
//! functions under test read from `VMBinding`. No GC ever runs in this harness: every callback
//! that only a collection would use is `unimplemented!()`.
use mmtk::util::copy::{CopySemantics, GCWorkerCopyContext};
use mmtk::util::opaque_pointer::*;
use mmtk::util::{Address, ObjectReference};
use mmtk::vm::slot::{SimpleSlot, UnimplementedMemorySlice};
use mmtk::vm::*;
use mmtk::Mutator;

/// `LMIN`/`LMAX`: log2 of MIN_ALIGNMENT / MAX_ALIGNMENT; `AV`: ALIGNMENT_VALUE.
#[derive(Default)]
pub struct StubVM<const LMIN: usize, const LMAX: usize, const AV: u8>;

impl<const LMIN: usize, const LMAX: usize, const AV: u8> VMBinding for StubVM<LMIN, LMAX, AV> {
    type VMObjectModel = OM;
    type VMScanning = SC;
    type VMCollection = CO;
    type VMActivePlan = AP;
    type VMReferenceGlue = RG;
    type VMSlot = SimpleSlot;
    type VMMemorySlice = UnimplementedMemorySlice;
    const ALIGNMENT_VALUE: u8 = AV;
    const MIN_ALIGNMENT: usize = 1 << LMIN;
    const MAX_ALIGNMENT: usize = 1 << LMAX;
}

pub struct OM;
pub struct SC;
pub struct CO;
pub struct AP;
pub struct RG;

impl<const LMIN: usize, const LMAX: usize, const AV: u8> ObjectModel<StubVM<LMIN, LMAX, AV>> for OM {
    const GLOBAL_LOG_BIT_SPEC: VMGlobalLogBitSpec = VMGlobalLogBitSpec::side_first();
    const LOCAL_FORWARDING_POINTER_SPEC: VMLocalForwardingPointerSpec =
        VMLocalForwardingPointerSpec::in_header(0);
    const LOCAL_FORWARDING_BITS_SPEC: VMLocalForwardingBitsSpec =
        VMLocalForwardingBitsSpec::side_first();
    const LOCAL_MARK_BIT_SPEC: VMLocalMarkBitSpec = VMLocalMarkBitSpec::side_after(
        <Self as ObjectModel<StubVM<LMIN, LMAX, AV>>>::LOCAL_FORWARDING_BITS_SPEC.as_spec(),
    );
    const LOCAL_LOS_MARK_NURSERY_SPEC: VMLocalLOSMarkNurserySpec =
        VMLocalLOSMarkNurserySpec::side_after(
            <Self as ObjectModel<StubVM<LMIN, LMAX, AV>>>::LOCAL_MARK_BIT_SPEC.as_spec(),
        );
    const OBJECT_REF_OFFSET_LOWER_BOUND: isize = 0;

    fn copy(
        _from: ObjectReference,
        _semantics: CopySemantics,
        _copy_context: &mut GCWorkerCopyContext<StubVM<LMIN, LMAX, AV>>,
    ) -> ObjectReference {
        unimplemented!()
    }
    fn copy_to(_from: ObjectReference, _to: ObjectReference, _region: Address) -> Address {
        unimplemented!()
    }
    fn get_current_size(_object: ObjectReference) -> usize {
        unimplemented!()
    }
    fn get_size_when_copied(_object: ObjectReference) -> usize {
        unimplemented!()
    }
    fn get_align_when_copied(_object: ObjectReference) -> usize {
        unimplemented!()
    }
    fn get_align_offset_when_copied(_object: ObjectReference) -> usize {
        unimplemented!()
    }
    fn get_reference_when_copied_to(_from: ObjectReference, _to: Address) -> ObjectReference {
        unimplemented!()
    }
    fn get_type_descriptor(_reference: ObjectReference) -> &'static [i8] {
        unimplemented!()
    }
    fn ref_to_object_start(object: ObjectReference) -> Address {
        object.to_raw_address()
    }
    fn ref_to_header(object: ObjectReference) -> Address {
        object.to_raw_address()
    }
    fn dump_object(_object: ObjectReference) {
        unimplemented!()
    }
}

impl<const LMIN: usize, const LMAX: usize, const AV: u8> ActivePlan<StubVM<LMIN, LMAX, AV>> for AP {
    fn number_of_mutators() -> usize {
        1
    }
    fn is_mutator(_tls: VMThread) -> bool {
        true
    }
    fn mutator(_tls: VMMutatorThread) -> &'static mut Mutator<StubVM<LMIN, LMAX, AV>> {
        unimplemented!()
    }
    fn mutators<'a>() -> Box<dyn Iterator<Item = &'a mut Mutator<StubVM<LMIN, LMAX, AV>>> + 'a> {
        unimplemented!()
    }
}

impl<const LMIN: usize, const LMAX: usize, const AV: u8> Collection<StubVM<LMIN, LMAX, AV>> for CO {
    fn stop_all_mutators<F>(_tls: VMWorkerThread, _mutator_visitor: F)
    where
        F: FnMut(&'static mut Mutator<StubVM<LMIN, LMAX, AV>>),
    {
        unimplemented!()
    }
    fn resume_mutators(_tls: VMWorkerThread) {
        unimplemented!()
    }
    fn block_for_gc(_tls: VMMutatorThread) {
        panic!("stub VM: a GC was requested")
    }
    fn spawn_gc_thread(_tls: VMThread, _ctx: GCThreadContext<StubVM<LMIN, LMAX, AV>>) {}
}

impl<const LMIN: usize, const LMAX: usize, const AV: u8> Scanning<StubVM<LMIN, LMAX, AV>> for SC {
    fn scan_roots_in_mutator_thread(
        _tls: VMWorkerThread,
        _mutator: &'static mut Mutator<StubVM<LMIN, LMAX, AV>>,
        _factory: impl RootsWorkFactory<SimpleSlot>,
    ) {
        unimplemented!()
    }
    fn scan_vm_specific_roots(_tls: VMWorkerThread, _factory: impl RootsWorkFactory<SimpleSlot>) {
        unimplemented!()
    }
    fn scan_object<SV: SlotVisitor<SimpleSlot>>(
        _tls: VMWorkerThread,
        _object: ObjectReference,
        _slot_visitor: &mut SV,
    ) {
        unimplemented!()
    }
    fn notify_initial_thread_scan_complete(_partial_scan: bool, _tls: VMWorkerThread) {
        unimplemented!()
    }
    fn supports_return_barrier() -> bool {
        unimplemented!()
    }
    fn prepare_for_roots_re_scanning() {
        unimplemented!()
    }
}

impl<const LMIN: usize, const LMAX: usize, const AV: u8> ReferenceGlue<StubVM<LMIN, LMAX, AV>> for RG {
    type FinalizableType = ObjectReference;
    fn set_referent(_reference: ObjectReference, _referent: ObjectReference) {
        unimplemented!()
    }
    fn get_referent(_object: ObjectReference) -> Option<ObjectReference> {
        unimplemented!()
    }
    fn clear_referent(_object: ObjectReference) {
        unimplemented!()
    }
    fn enqueue_references(_references: &[ObjectReference], _tls: VMWorkerThread) {
        unimplemented!()
    }
}
