//! C33: alignment and size arithmetic. Rows (all batched over a list of inputs):
//!
//! RA  raw_align_up/down/is_aligned and Address::align_up/align_down/is_aligned_to for align=2^la
//!     {"ev":"RA","w":0|1,"la":k,"vs":[..],"up":[..],"down":[..],"al":[0/1..],"aup":[..],"adown":[..],"aal":[..]}
//! RS  rshift_align_up(num, bits)            {"ev":"RS","w","bits":k,"vs":[..],"res":[..]}
//! PG  byte/address -> page/chunk conversions of conversions.rs (lp/lc/lw = the crate's log page,
//!     chunk and address-size constants)    {"ev":"PG","w","lp":12,"lc":22,"lw":3,"vs":[..],"p_up":..}
//! PX  index -> bytes/address conversions   {"ev":"PX","w","lp","lc","vs":[..],"p2b":[..],"cia":[..]}
//! AA  align_allocation family for one (VM constants, alignment, offset, known alignment):
//!     {"ev":"AA","w","fn":"fill"|"nofill"|"inner","lmin","lmax","la","known","off","size","mas",
//!      "regions":[..],"res":[..]}
//! MS  get_maximum_aligned_size(_inner) for many sizes
//!     {"ev":"MS","w","lmin","lmax","la","known","inner":0/1,"sizes":[..],"res":[..]}
//! AF  align_allocation with a non-zero ALIGNMENT_VALUE on a buffer owned by the harness:
//!     {"ev":"AF","lmin","lmax","av","la","off":limbs,"base":limbs,"roff":n,"res":limbs,
//!      "before":[bytes],"after":[bytes]}   (bytes of the window base..base+len)
//!
//! Value representation: a row with "w":0 ("narrow": every input and result in it is < 2^29)
//! carries plain integers, -1 = the call panicked; a row with "w":1 carries every value as four
//! little-endian 16-bit limbs, [] = the call panicked. The choice depends only on magnitudes.
//! The specification decides whether a call's precondition held; nothing is judged here.
use crate::vm::StubVM;
use crate::{limbs, limbs_list, quiet, tri_list};
use mmtk::util::conversions as cv;
use mmtk::util::Address;
use mmtk::vm::VMBinding;
use vcommon::*;

const NARROW: usize = 1 << 29;

fn is_narrow(cols: &[&[Option<usize>]]) -> bool {
    cols.iter().all(|c| c.iter().all(|v| v.map(|x| x < NARROW).unwrap_or(true)))
}
fn enc(col: &[Option<usize>], narrow: bool) -> String {
    if narrow {
        json_ints(col.iter().map(|v| v.map(|x| x as i64).unwrap_or(-1)))
    } else {
        limbs_list(col.iter().copied())
    }
}
fn enc1(v: Option<usize>, narrow: bool) -> String {
    if narrow {
        v.map(|x| x as i64).unwrap_or(-1).to_string()
    } else {
        match v {
            Some(x) => limbs(x),
            None => "[]".to_string(),
        }
    }
}
fn somes(vs: &[usize]) -> Vec<Option<usize>> {
    vs.iter().map(|v| Some(*v)).collect()
}
fn map<F: Fn(usize) -> usize + std::panic::RefUnwindSafe>(vs: &[usize], f: F) -> Vec<Option<usize>> {
    vs.iter().map(|v| { let v = *v; let f = &f; quiet(move || f(v)) }).collect()
}
fn mapb<F: Fn(usize) -> bool + std::panic::RefUnwindSafe>(vs: &[usize], f: F) -> Vec<Option<bool>> {
    vs.iter().map(|v| { let v = *v; let f = &f; quiet(move || f(v)) }).collect()
}

fn addr(v: usize) -> Address {
    unsafe { Address::from_usize(v) }
}

const BATCH: usize = 512;

/// Structured wide values for an alignment/shift of 2^k: `h*2^k + e` for boundary and seeded h and
/// small / half-way / seeded e, values next to the word boundaries and seeded random words.
fn structured(rng: &mut Rng, k: usize, nrand: usize, dense: bool) -> Vec<usize> {
    let mut v: Vec<usize> = vec![];
    let a = 1usize.wrapping_shl(k as u32);
    let top = if k == 0 { usize::MAX } else { (1usize << (64 - k)) - 1 };
    let mut hs: Vec<usize> = vec![0, 1, top / 2, top.wrapping_sub(1), top];
    if dense {
        hs.extend([2, 3, top / 2 + 1]);
    }
    for _ in 0..(if dense { 4 } else { 1 }) {
        hs.push(rng.next() as usize & top);
    }
    let half = a >> 1;
    let mut es: Vec<usize> = vec![0, 1, a.wrapping_sub(1), half, half.wrapping_add(1)];
    if dense {
        es.extend([2, a.wrapping_sub(2), half.wrapping_sub(1)]);
    }
    for _ in 0..(if dense { 3 } else { 1 }) {
        es.push(rng.next() as usize & a.wrapping_sub(1));
    }
    for h in &hs {
        for e in &es {
            v.push(h.wrapping_mul(a).wrapping_add(*e));
        }
    }
    let nb = if dense { 24usize } else { 8 };
    for j in 0..nb {
        v.push(usize::MAX - j);
        v.push((1usize << 63).wrapping_add(j).wrapping_sub(nb / 2));
        v.push((1usize << 32).wrapping_sub(nb / 2).wrapping_add(j));
    }
    for _ in 0..nrand {
        let r = rng.next() as usize;
        let w = rng.range(1, 64) as u32;
        v.push(if w == 64 { r } else { r & ((1usize << w) - 1) });
    }
    v
}

fn row_ra(trace: &Trace, k: usize, vs: &[usize]) {
    let a = 1usize << k;
    let up = map(vs, |v| cv::raw_align_up(v, a));
    let down = map(vs, |v| cv::raw_align_down(v, a));
    let aup = map(vs, |v| addr(v).align_up(a).as_usize());
    let adown = map(vs, |v| addr(v).align_down(a).as_usize());
    let ins = somes(vs);
    let n = k <= 29 && is_narrow(&[&ins, &up, &down, &aup, &adown]);
    let o = Obj::new("RA")
        .uint("w", !n as u64)
        .uint("la", k as u64)
        .json("vs", &enc(&ins, n))
        .json("up", &enc(&up, n))
        .json("down", &enc(&down, n))
        .json("al", &tri_list(mapb(vs, |v| cv::raw_is_aligned(v, a))))
        .json("aup", &enc(&aup, n))
        .json("adown", &enc(&adown, n))
        .json("aal", &tri_list(mapb(vs, |v| addr(v).is_aligned_to(a))));
    trace.push(o.finish());
}

fn row_rs(trace: &Trace, k: usize, vs: &[usize]) {
    let res = map(vs, |v| cv::rshift_align_up(v, k));
    let ins = somes(vs);
    let n = k <= 29 && is_narrow(&[&ins, &res]);
    let o = Obj::new("RS").uint("w", !n as u64).uint("bits", k as u64).json("vs", &enc(&ins, n)).json("res", &enc(&res, n));
    trace.push(o.finish());
}

fn row_pg(trace: &Trace, vs: &[usize]) {
    use mmtk::util::constants::{LOG_BYTES_IN_ADDRESS, LOG_BYTES_IN_PAGE};
    use mmtk::util::heap::vm_layout::LOG_BYTES_IN_CHUNK;
    let ins = somes(vs);
    let p_up = map(vs, cv::bytes_to_pages_up);
    let c_up = map(vs, cv::bytes_to_chunks_up);
    let pad = map(vs, |v| cv::page_align_down(addr(v)).as_usize());
    let cau = map(vs, |v| cv::chunk_align_up(addr(v)).as_usize());
    let cad = map(vs, |v| cv::chunk_align_down(addr(v)).as_usize());
    let aci = map(vs, |v| cv::address_to_chunk_index(addr(v)));
    let n = is_narrow(&[&ins, &p_up, &c_up, &pad, &cau, &cad, &aci]);
    let o = Obj::new("PG")
        .uint("w", !n as u64)
        .uint("lp", LOG_BYTES_IN_PAGE as u64)
        .uint("lc", LOG_BYTES_IN_CHUNK as u64)
        .uint("lw", LOG_BYTES_IN_ADDRESS as u64)
        .json("vs", &enc(&ins, n))
        .json("p_up", &enc(&p_up, n))
        .json("c_up", &enc(&c_up, n))
        .json("pad", &enc(&pad, n))
        .json("ipa", &tri_list(mapb(vs, |v| cv::is_page_aligned(addr(v)))))
        .json("iaa", &tri_list(mapb(vs, |v| cv::is_address_aligned(addr(v)))))
        .json("cau", &enc(&cau, n))
        .json("cad", &enc(&cad, n))
        .json("aci", &enc(&aci, n));
    trace.push(o.finish());
}

fn row_px(trace: &Trace, vs: &[usize]) {
    use mmtk::util::constants::LOG_BYTES_IN_PAGE;
    use mmtk::util::heap::vm_layout::LOG_BYTES_IN_CHUNK;
    let ins = somes(vs);
    let p2b = map(vs, cv::pages_to_bytes);
    let cia = map(vs, |v| cv::chunk_index_to_address(v).as_usize());
    let n = is_narrow(&[&ins, &p2b, &cia]);
    let o = Obj::new("PX")
        .uint("w", !n as u64)
        .uint("lp", LOG_BYTES_IN_PAGE as u64)
        .uint("lc", LOG_BYTES_IN_CHUNK as u64)
        .json("vs", &enc(&ins, n))
        .json("p2b", &enc(&p2b, n))
        .json("cia", &enc(&cia, n));
    trace.push(o.finish());
}

/// One AA row: `which` 0 = align_allocation (fill flag on; the VM's ALIGNMENT_VALUE is 0 here so
/// nothing is written), 1 = align_allocation_no_fill, 2 = align_allocation_inner(known, no fill).
#[allow(clippy::too_many_arguments)]
fn row_aa<VM: VMBinding>(trace: &Trace, which: u32, la: usize, known: usize, off: usize, size: usize, regions: &[usize]) {
    assert_eq!(VM::ALIGNMENT_VALUE, 0);
    let a = 1usize << la;
    let ka = 1usize << known;
    let res = map(regions, |r| match which {
        0 => mmtk::verif::align_allocation::<VM>(addr(r), a, off).as_usize(),
        1 => mmtk::verif::align_allocation_no_fill::<VM>(addr(r), a, off).as_usize(),
        _ => mmtk::verif::align_allocation_inner::<VM>(addr(r), a, off, ka, false).as_usize(),
    });
    let mas = quiet(move || {
        if which == 2 {
            mmtk::verif::get_maximum_aligned_size_inner::<VM>(size, a, ka)
        } else {
            mmtk::verif::get_maximum_aligned_size::<VM>(size, a)
        }
    });
    let ins = somes(regions);
    let n = is_narrow(&[&ins, &res, &[Some(off), Some(size), mas]]);
    let o = Obj::new("AA")
        .uint("w", !n as u64)
        .str("fn", ["fill", "nofill", "inner"][which as usize])
        .uint("lmin", VM::MIN_ALIGNMENT.trailing_zeros() as u64)
        .uint("lmax", VM::MAX_ALIGNMENT.trailing_zeros() as u64)
        .uint("la", la as u64)
        .uint("known", known as u64)
        .json("off", &enc1(Some(off), n))
        .json("size", &enc1(Some(size), n))
        .json("mas", &enc1(mas, n))
        .json("regions", &enc(&ins, n))
        .json("res", &enc(&res, n));
    trace.push(o.finish());
}

fn row_ms<VM: VMBinding>(trace: &Trace, la: usize, known: usize, inner: bool, sizes: &[usize]) {
    let a = 1usize << la;
    let ka = 1usize << known;
    let res = map(sizes, |s| {
        if inner {
            mmtk::verif::get_maximum_aligned_size_inner::<VM>(s, a, ka)
        } else {
            mmtk::verif::get_maximum_aligned_size::<VM>(s, a)
        }
    });
    let ins = somes(sizes);
    let n = is_narrow(&[&ins, &res]);
    let o = Obj::new("MS")
        .uint("w", !n as u64)
        .uint("lmin", VM::MIN_ALIGNMENT.trailing_zeros() as u64)
        .uint("lmax", VM::MAX_ALIGNMENT.trailing_zeros() as u64)
        .uint("la", la as u64)
        .uint("known", known as u64)
        .uint("inner", inner as u64)
        .json("sizes", &enc(&ins, n))
        .json("res", &enc(&res, n));
    trace.push(o.finish());
}

struct AaCfg {
    highs: Vec<usize>,
    low_span: usize,
    max_offsets: usize,
    wide_span: usize,
}

fn sample_size(rng: &mut Rng, known: usize, small: bool) -> usize {
    let ka = 1usize << known;
    let w = if small { rng.range(3, 20) } else { rng.range(3, 64) } as u32;
    let r = rng.next() as usize;
    (if w == 64 { r } else { r & ((1usize << w) - 1) }) & !(ka - 1)
}

fn drive_aa<VM: VMBinding>(trace: &Trace, rng: &mut Rng, cfg: &AaCfg) {
    let lmin = VM::MIN_ALIGNMENT.trailing_zeros() as usize;
    let lmax = VM::MAX_ALIGNMENT.trailing_zeros() as usize;
    for la in lmin..=lmax {
        let a = 1usize << la;
        for which in 0..3u32 {
            // `known`: the statically known alignment of the region. The public entry points use
            // MIN_ALIGNMENT; the inner function is also driven with larger values (the region and
            // the offset are then multiples of it: generator constraint, see the spec).
            let knowns: Vec<usize> = if which == 2 { (lmin..=(lmax + 1).min(lmin + 3)).collect() } else { vec![lmin] };
            for known in knowns {
                let ka = 1usize << known;
                // offsets: one full period of the alignment (thinned to max_offsets), 2^la - 2^known,
                // a few negative ones and two seeded ones
                let mut offs: Vec<usize> = vec![];
                let per = (2 * a / ka).max(1);
                let stride = (per / cfg.max_offsets.max(1)).max(1);
                let mut j = 0;
                while j < per {
                    offs.push(j * ka);
                    j += stride;
                }
                if per > 1 {
                    offs.push((per - 1) * ka);
                }
                for j in 1..=2usize {
                    offs.push(0usize.wrapping_sub(j * ka));
                }
                offs.push((rng.next() as usize) & !(ka - 1));
                offs.push(((rng.next() as usize) & 0xffff) & !(ka - 1));
                offs.dedup();
                for off in offs {
                    for (hi, h) in cfg.highs.iter().enumerate() {
                        let span = if hi == 0 { cfg.low_span.max(4 * a) } else { cfg.wide_span.max(a + 2 * ka) };
                        let small = hi == 0 && off < NARROW;
                        let mut regions: Vec<usize> = vec![];
                        let mut l = 0usize;
                        while l < span {
                            regions.push(h.wrapping_add(l));
                            l += ka;
                            if regions.len() == BATCH {
                                let size = sample_size(rng, known, small);
                                row_aa::<VM>(trace, which, la, known, off, size, &regions);
                                regions.clear();
                            }
                        }
                        if !regions.is_empty() {
                            let size = sample_size(rng, known, small);
                            row_aa::<VM>(trace, which, la, known, off, size, &regions);
                        }
                    }
                }
                // sizes for get_maximum_aligned_size
                if which != 1 {
                    let sizes: Vec<usize> = (0..256usize).map(|i| i * ka).collect();
                    row_ms::<VM>(trace, la, known, which == 2, &sizes);
                    let mut sizes: Vec<usize> = vec![];
                    for j in 0..24usize {
                        sizes.push(usize::MAX.wrapping_sub(j * ka) & !(ka - 1));
                        sizes.push(((1usize << 63) + j * ka) & !(ka - 1));
                    }
                    for _ in 0..32 {
                        sizes.push(sample_size(rng, known, false));
                    }
                    row_ms::<VM>(trace, la, known, which == 2, &sizes);
                }
            }
        }
    }
}

/// AF rows: the fill variant with ALIGNMENT_VALUE != 0 on memory owned by the harness.
fn drive_fill<VM: VMBinding>(trace: &Trace) {
    let lmin = VM::MIN_ALIGNMENT.trailing_zeros() as usize;
    let lmax = VM::MAX_ALIGNMENT.trailing_zeros() as usize;
    let maxa = VM::MAX_ALIGNMENT;
    let mina = VM::MIN_ALIGNMENT;
    let len = 4 * maxa;
    let mut backing = vec![0u8; len + 8192];
    let base = (backing.as_mut_ptr() as usize + 4095) & !4095;
    for la in lmin..=lmax {
        let a = 1usize << la;
        let mut off = 0usize;
        while off < 2 * a {
            let mut roff = maxa;
            while roff < 2 * maxa + mina {
                let window = unsafe { std::slice::from_raw_parts_mut(base as *mut u8, len) };
                for (i, b) in window.iter_mut().enumerate() {
                    *b = 0x10 + (i % 7) as u8;
                }
                let before: Vec<i64> = window.iter().map(|b| *b as i64).collect();
                let region = base + roff;
                let res = quiet(move || mmtk::verif::align_allocation::<VM>(addr(region), a, off).as_usize());
                let window = unsafe { std::slice::from_raw_parts(base as *const u8, len) };
                let after: Vec<i64> = window.iter().map(|b| *b as i64).collect();
                let o = Obj::new("AF")
                    .uint("lmin", lmin as u64)
                    .uint("lmax", lmax as u64)
                    .uint("av", VM::ALIGNMENT_VALUE as u64)
                    .uint("la", la as u64)
                    .json("off", &limbs(off))
                    .json("base", &limbs(base))
                    .uint("roff", roff as u64)
                    .json("res", &enc1(res, false))
                    .ints("before", before)
                    .ints("after", after);
                trace.push(o.finish());
                roff += mina;
            }
            off += mina;
        }
    }
}

fn parse_list(s: &str) -> Vec<usize> {
    s.split(',').filter(|x| !x.is_empty()).map(|x| x.parse().expect("number list")).collect()
}

pub fn run() {
    let out = arg_or("out", "arith.ndjson");
    // alignments 2^k whose low 12 bits are enumerated exhaustively at high part 0 (narrow rows)
    let lowk = parse_list(&arg_or("lowk", "0,1,2,3,6,12"));
    // number of seeded high parts at which the low 12 bits are enumerated again (wide rows)
    let nhighs = arg_u64("highs", 0) as usize;
    let nrand = arg_u64("rand", 8) as usize;
    let dense = flag("dense");
    let aa_highs = arg_u64("aahighs", 1) as usize;
    let part = arg_or("part", "all");
    let mut rng = Rng::new(seed_from_env());
    let trace = Trace::new();

    let fixed = [usize::MAX - 8191, (1usize << 47) - 4096, (1usize << 63) - 2048, (1usize << 32) - 2048];
    let highs: Vec<usize> = (0..nhighs)
        .map(|i| if i < fixed.len() { fixed[i] } else { (rng.next() as usize) & !4095 })
        .collect();

    if part == "all" || part == "conv" {
        for k in 0..64usize {
            // (a) exhaustive low bits
            let mut vs: Vec<usize> = vec![];
            if k <= 12 {
                let span = if lowk.contains(&k) { 4096 } else { (4usize << k).min(4092) + 4 };
                vs.extend(0..span);
                for h in &highs {
                    vs.extend((0..span).map(|l| h.wrapping_add(l)));
                }
            } else if k <= 28 {
                // two alignment periods sampled at 64 points each side of every multiple
                for m in 0..3usize {
                    for d in 0..24usize {
                        vs.push((m << k).wrapping_add(d));
                        vs.push(((m + 1) << k).wrapping_sub(d + 1));
                    }
                }
            }
            for c in vs.chunks(BATCH) {
                row_ra(&trace, k, c);
            }
            let rs_vs: Vec<usize> = if k <= 12 && !lowk.contains(&k) { vs.iter().copied().filter(|v| *v < (8usize << k) + 8 || *v >= 4096).collect() } else { vs.clone() };
            for c in rs_vs.chunks(BATCH) {
                row_rs(&trace, k, c);
            }
            // (b) structured wide values
            let vs = structured(&mut rng, k, nrand, dense);
            for c in vs.chunks(BATCH) {
                row_ra(&trace, k, c);
                row_rs(&trace, k, c);
            }
        }
        // page / chunk conversions
        let mut vs: Vec<usize> = (0..4096 + 64).collect();
        for m in 1..4usize {
            for d in 0..32usize {
                vs.push((m << 22) + d);
                vs.push((m << 22) - d - 1);
                vs.push((m << 12) + d);
            }
        }
        for c in vs.chunks(BATCH) {
            row_pg(&trace, c);
        }
        let mut wide: Vec<usize> = vec![];
        for h in &highs {
            wide.extend((0..4096usize).map(|l| h.wrapping_add(l)));
        }
        wide.extend(structured(&mut rng, 12, nrand, dense));
        wide.extend(structured(&mut rng, 22, nrand, dense));
        wide.extend(structured(&mut rng, 3, nrand, dense));
        for c in wide.chunks(BATCH) {
            row_pg(&trace, c);
        }
        let mut idx: Vec<usize> = (0..512).collect();
        idx.extend(structured(&mut rng, 0, nrand, dense));
        for j in 0..40usize {
            idx.push((1usize << 52) - 20 + j);
            idx.push((1usize << 42) - 20 + j);
        }
        for c in idx.chunks(BATCH) {
            row_px(&trace, c);
        }
    }

    if part == "all" || part == "alloc" {
        let mut ah: Vec<usize> = vec![0];
        let fixed = [usize::MAX - 16383, (1usize << 63) - 8192, 1usize << 40];
        for i in 0..aa_highs {
            if i < fixed.len() {
                ah.push(fixed[i]);
            } else {
                ah.push((rng.next() as usize) & !8191);
            }
        }
        let cfg = AaCfg {
            highs: ah,
            low_span: arg_u64("span", 256) as usize,
            max_offsets: arg_u64("offs", 4) as usize,
            wide_span: arg_u64("wspan", 64) as usize,
        };
        drive_aa::<StubVM<2, 3, 0>>(&trace, &mut rng, &cfg);
        drive_aa::<StubVM<3, 3, 0>>(&trace, &mut rng, &cfg);
        drive_aa::<StubVM<2, 4, 0>>(&trace, &mut rng, &cfg);
        drive_aa::<StubVM<3, 6, 0>>(&trace, &mut rng, &cfg);
        if flag("morevms") {
            drive_aa::<StubVM<4, 6, 0>>(&trace, &mut rng, &cfg);
            // page-sized maximum alignment: mostly at small addresses (narrow rows), one high part
            let cfg2 = AaCfg {
                highs: cfg.highs.iter().copied().take(2).collect(),
                low_span: cfg.low_span,
                max_offsets: 3,
                wide_span: 16,
            };
            drive_aa::<StubVM<2, 12, 0>>(&trace, &mut rng, &cfg2);
        }
        drive_fill::<StubVM<2, 3, 0xab>>(&trace);
        drive_fill::<StubVM<3, 5, 0xab>>(&trace);
        if flag("morevms") {
            drive_fill::<StubVM<2, 4, 0x5a>>(&trace);
        }
    }

    let n = trace.write_to(&out).expect("write trace");
    println!("rows={}", n);
}
