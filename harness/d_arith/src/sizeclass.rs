//! C35: mark-sweep size classes.
//!
//! `sizeclass` sub-command (pure functions, whole finite domain):
//!   TB {"ev":"TB","table":[49 cell sizes],"max_bin","max_bin_size","large_max","block","word"}
//!   BS {"ev":"BS","s0","step":1,"n","bins":[..]}              mi_bin_from_size(s0 + i)
//!   BV {"ev":"BV","lmin","lmax","la","s0","step","n","bins":[..]}  mi_bin::<VM>(s0 + i*step, 2^la)
//!   A panicking call is reported as bin -1. Sizes within 2*MAX_ALIGNMENT of the end of the domain
//!   are emitted one per row so that a rejected row names a single input.
//!
//! `freshblock` sub-command (a real MarkSweep MMTK instance, no GC ever runs): the first allocation
//! of each size class acquires a fresh block; hook `verif_block_free_list` then walks the block's
//! cell free list.
//!   FB {"ev":"FB","bin","size","align","res":offset of the returned cell in its block,
//!       "cell":recorded cell size,"block":64KB,"free":[offsets of the cells still in the list]}
//!   Offsets are `addr - block_start`, clamped to +-2^30.
//!   AL {"ev":"AL","size","la","lmin","lmax","max_non_los","res","cell","block"}  a request at the
//!       upper end of the domain through memory_manager::alloc; res = offset of the result in its
//!       block, -1 = the call panicked, -2 = null.
use crate::quiet;
use crate::vm::StubVM;
use mmtk::util::opaque_pointer::*;
use mmtk::util::Address;
use mmtk::vm::VMBinding;
use mmtk::AllocationSemantics;
use vcommon::*;

const CHUNK: usize = 256;

fn bv_rows<VM: VMBinding>(trace: &Trace, max_size: usize) {
    let lmin = VM::MIN_ALIGNMENT.trailing_zeros() as usize;
    let lmax = VM::MAX_ALIGNMENT.trailing_zeros() as usize;
    let step = VM::MIN_ALIGNMENT;
    for la in lmin..=lmax {
        let a = 1usize << la;
        let single_from = max_size.saturating_sub(2 * VM::MAX_ALIGNMENT);
        let mut s = 0usize;
        while s <= max_size {
            let n = if s >= single_from { 1 } else { CHUNK.min((single_from - s).div_ceil(step)).max(1) };
            let sizes: Vec<usize> = (0..n).map(|i| s + i * step).filter(|x| *x <= max_size).collect();
            let bins: Vec<i64> = sizes
                .iter()
                .map(|sz| {
                    let sz = *sz;
                    quiet(move || mmtk::verif::mi_bin::<VM>(sz, a)).map(|b| b as i64).unwrap_or(-1)
                })
                .collect();
            trace.push(
                Obj::new("BV")
                    .uint("lmin", lmin as u64)
                    .uint("lmax", lmax as u64)
                    .uint("la", la as u64)
                    .uint("s0", s as u64)
                    .uint("step", step as u64)
                    .uint("n", sizes.len() as u64)
                    .ints("bins", bins)
                    .finish(),
            );
            s += n * step;
        }
    }
}

fn table_row(trace: &Trace) -> (usize, usize) {
    let table = mmtk::verif::verif_size_class_table();
    let (max_bin, max_bin_size, large_max, block, word) = mmtk::verif::verif_ms_consts();
    trace.push(
        Obj::new("TB")
            .ints("table", table.iter().map(|x| *x as i64))
            .uint("max_bin", max_bin as u64)
            .uint("max_bin_size", max_bin_size as u64)
            .uint("large_max", large_max as u64)
            .uint("block", block as u64)
            .uint("word", word as u64)
            .finish(),
    );
    (max_bin_size, large_max)
}

pub fn run_table() {
    let out = arg_or("out", "sizeclass.ndjson");
    let trace = Trace::new();
    let (max_bin_size, _large_max) = table_row(&trace);
    // mi_bin_from_size on every byte size of the domain
    let mut s = 0usize;
    while s <= max_bin_size {
        let n = CHUNK.min(max_bin_size + 1 - s);
        let bins: Vec<i64> = (0..n)
            .map(|i| {
                let sz = s + i;
                quiet(move || mmtk::verif::verif_mi_bin_from_size(sz)).map(|b| b as i64).unwrap_or(-1)
            })
            .collect();
        trace.push(Obj::new("BS").uint("s0", s as u64).uint("step", 1).uint("n", n as u64).ints("bins", bins).finish());
        s += n;
    }
    // mi_bin::<VM>(size, align) for every legal (size, align) of several VM alignment settings
    bv_rows::<StubVM<2, 3, 0>>(&trace, max_bin_size);
    bv_rows::<StubVM<3, 3, 0>>(&trace, max_bin_size);
    bv_rows::<StubVM<2, 4, 0>>(&trace, max_bin_size);
    bv_rows::<StubVM<3, 6, 0>>(&trace, max_bin_size);
    bv_rows::<StubVM<4, 6, 0>>(&trace, max_bin_size);
    if flag("morevms") {
        bv_rows::<StubVM<3, 4, 0>>(&trace, max_bin_size);
        bv_rows::<StubVM<2, 6, 0>>(&trace, max_bin_size);
        bv_rows::<StubVM<3, 12, 0>>(&trace, max_bin_size);
    }
    let n = trace.write_to(&out).expect("write trace");
    println!("rows={}", n);
}

type FVM = StubVM<3, 4, 0>;

fn clamp_off(a: Address, base: Address) -> i64 {
    let d = a.as_usize().wrapping_sub(base.as_usize()) as i64;
    d.clamp(-(1 << 30), 1 << 30)
}

pub fn run_fresh_block() {
    let out = arg_or("out", "freshblock.ndjson");
    let rounds = arg_u64("rounds", 1) as usize;
    let trace = Trace::new();
    let (max_bin_size, _) = table_row(&trace);
    let table = mmtk::verif::verif_size_class_table();
    let (_, _, _, block_bytes, _) = mmtk::verif::verif_ms_consts();

    let mut builder = mmtk::MMTKBuilder::new_no_env_vars();
    assert!(builder.set_option("plan", "MarkSweep"));
    assert!(builder.set_option("gc_trigger", "FixedHeapSize:1073741824"));
    assert!(builder.set_option("threads", "1"));
    let mmtk: &'static mmtk::MMTK<FVM> = Box::leak(mmtk::memory_manager::mmtk_init::<FVM>(&builder));
    let tls = VMMutatorThread(VMThread(OpaquePointer::from_address(unsafe { Address::from_usize(0x1000) })));
    let mut mutator = mmtk::memory_manager::bind_mutator(mmtk, tls);
    let align = <FVM as VMBinding>::MIN_ALIGNMENT;
    let mut rng = Rng::new(seed_from_env());

    for round in 0..rounds {
        for bin in 1..table.len() {
            // a request size that selects this bin: the class size itself in round 0, afterwards a
            // seeded size in (previous class, this class]
            let hi = table[bin].min(max_bin_size);
            let lo = if bin == 1 { 8 } else { table[bin - 1] + 8 };
            let mut size = hi;
            if round > 0 && lo < hi {
                size = ((rng.range(lo as u64, hi as u64) as usize) & !7).max(lo);
            }
            let the_bin = quiet(move || mmtk::verif::mi_bin::<FVM>(size, align)).map(|b| b as i64).unwrap_or(-1);
            // Exhaust the current block of this bin first (rounds > 0) so that the next allocation
            // has to initialise a fresh block.
            if round > 0 {
                let per_block = block_bytes / table[bin];
                for _ in 0..per_block {
                    let m = &mut *mutator;
                    let r = mmtk::memory_manager::alloc(m, size, align, 0, AllocationSemantics::Default);
                    if r.is_zero() {
                        break;
                    }
                    let (_, _, fl) = mmtk::verif::verif_block_free_list(r, 2);
                    if fl.is_empty() {
                        break;
                    }
                }
            }
            let res = {
                let m = &mut *mutator;
                mmtk::memory_manager::alloc(m, size, align, 0, AllocationSemantics::Default)
            };
            if res.is_zero() {
                trace.push(Obj::new("Crash").str("msg", "allocation returned null").uint("bin", bin as u64).finish());
                continue;
            }
            let limit = block_bytes / 8 + 16;
            let (bstart, cell, free) = mmtk::verif::verif_block_free_list(res, limit);
            trace.push(
                Obj::new("FB")
                    .int("bin", the_bin)
                    .uint("size", size as u64)
                    .uint("align", align as u64)
                    .int("res", clamp_off(res, bstart))
                    .uint("cell", cell.min(1 << 30) as u64)
                    .uint("block", block_bytes as u64)
                    .uint("round", round as u64)
                    .ints("free", free.iter().map(|c| clamp_off(*c, bstart)))
                    .finish(),
            );
        }
    }
    // AL rows: requests at the upper end of the domain through the public allocation API. The plan
    // declares sizes up to `max_non_los_default_alloc_bytes` legal for the default allocator.
    let max_non_los = mmtk.get_plan().constraints().max_non_los_default_alloc_bytes;
    let maxa = <FVM as VMBinding>::MAX_ALIGNMENT;
    let mut reqs: Vec<(usize, usize)> = vec![(max_bin_size - maxa, align), (max_bin_size - maxa, maxa), (max_bin_size, align)];
    reqs.push((max_bin_size, maxa)); // last: may leave the allocator in an undefined state
    for (size, al) in reqs {
        let mref: &mut mmtk::Mutator<FVM> = &mut *mutator;
        let mptr = mref as *mut mmtk::Mutator<FVM> as usize;
        let r = quiet(move || {
            let m = unsafe { &mut *(mptr as *mut mmtk::Mutator<FVM>) };
            mmtk::memory_manager::alloc(m, size, al, 0, AllocationSemantics::Default)
        });
        let (res, cell) = match r {
            Some(a) if !a.is_zero() => {
                let (bstart, cell, _) = mmtk::verif::verif_block_free_list(a, 1);
                (clamp_off(a, bstart), cell.min(1 << 30) as i64)
            }
            Some(_) => (-2, 0),
            None => (-1, 0),
        };
        trace.push(
            Obj::new("AL")
                .uint("size", size as u64)
                .uint("la", al.trailing_zeros() as u64)
                .uint("lmin", align.trailing_zeros() as u64)
                .uint("lmax", maxa.trailing_zeros() as u64)
                .uint("max_non_los", max_non_los.min(1 << 30) as u64)
                .int("res", res)
                .int("cell", cell)
                .uint("block", block_bytes as u64)
                .finish(),
        );
    }
    let n = trace.write_to(&out).expect("write trace");
    println!("rows={}", n);
}
