//! Drivers for the "arith" family: C33 (alignment and size arithmetic), C35 (mark-sweep size
//! classes) and C32 (space descriptors). Each sub-command runs the REAL mmtk-core functions on an
//! enumerated / seeded input grid and writes one NDJSON row per batch of calls. Nothing is judged
//! here: inputs, results and panics ("crash" markers) are reported; the TLA+ trace specifications
//! under spec/arith, spec/sizeclass, spec/descriptor decide.
//!
//! Wide values (usize) travel as four little-endian 16-bit limbs `[l0,l1,l2,l3]`; a call that
//! panicked is reported as the empty limb list `[]` (or -1 for small integer results).

mod arith;
mod descriptor;
mod sizeclass;
mod vm;

pub fn limbs(v: usize) -> String {
    format!(
        "[{},{},{},{}]",
        v & 0xffff,
        (v >> 16) & 0xffff,
        (v >> 32) & 0xffff,
        (v >> 48) & 0xffff
    )
}

/// JSON list of limb vectors; `None` (the call panicked) becomes `[]`.
pub fn limbs_list<I: IntoIterator<Item = Option<usize>>>(vs: I) -> String {
    let mut s = String::from("[");
    let mut first = true;
    for v in vs {
        if !first {
            s.push(',');
        }
        first = false;
        match v {
            Some(v) => s.push_str(&limbs(v)),
            None => s.push_str("[]"),
        }
    }
    s.push(']');
    s
}

/// JSON list of 0/1/-1 (false/true/panicked).
pub fn tri_list<I: IntoIterator<Item = Option<bool>>>(vs: I) -> String {
    vcommon::json_ints(vs.into_iter().map(|b| match b {
        Some(true) => 1,
        Some(false) => 0,
        None => -1,
    }))
}

/// Run `f` quietly: a panic of the code under test becomes `None`.
pub fn quiet<R>(f: impl FnOnce() -> R + std::panic::UnwindSafe) -> Option<R> {
    vcommon::catch(f).ok()
}

fn main() {
    // Panics of the code under test are data (reported as crash markers); keep stderr quiet.
    std::panic::set_hook(Box::new(|_| {}));
    let args: Vec<String> = std::env::args().collect();
    match args.get(1).map(|s| s.as_str()).unwrap_or("") {
        "arith" => arith::run(),
        "sizeclass" => sizeclass::run_table(),
        "freshblock" => sizeclass::run_fresh_block(),
        "descriptor" => descriptor::run(),
        _ => {
            eprintln!("usage: d_arith arith|sizeclass|freshblock|descriptor --out <trace.ndjson> ...");
            std::process::exit(2);
        }
    }
}
