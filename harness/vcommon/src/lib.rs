//! Shared helpers for the verification harness: NDJSON trace writer, tiny JSON builder,
//! deterministic PRNG (no external crates so the harness resolves offline from /repo's lockfile).

use std::fmt::Write as _;
use std::io::Write as _;
use std::sync::Mutex;

/// SplitMix64: small deterministic PRNG seeded from VERIF_SEED.
#[derive(Clone)]
pub struct Rng(pub u64);
impl Rng {
    pub fn new(seed: u64) -> Self {
        Rng(seed.wrapping_mul(0x9E37_79B9_7F4A_7C15).wrapping_add(0x1234_5678_9ABC_DEF1))
    }
    pub fn next(&mut self) -> u64 {
        self.0 = self.0.wrapping_add(0x9E37_79B9_7F4A_7C15);
        let mut z = self.0;
        z = (z ^ (z >> 30)).wrapping_mul(0xBF58_476D_1CE4_E5B9);
        z = (z ^ (z >> 27)).wrapping_mul(0x94D0_49BB_1331_11EB);
        z ^ (z >> 31)
    }
    /// uniform in 0..n (n > 0)
    pub fn below(&mut self, n: u64) -> u64 {
        self.next() % n
    }
    pub fn range(&mut self, lo: u64, hi_incl: u64) -> u64 {
        lo + self.below(hi_incl - lo + 1)
    }
    pub fn chance(&mut self, num: u64, den: u64) -> bool {
        self.below(den) < num
    }
    pub fn pick<'a, T>(&mut self, xs: &'a [T]) -> &'a T {
        &xs[self.below(xs.len() as u64) as usize]
    }
}

pub fn seed_from_env() -> u64 {
    std::env::var("VERIF_SEED").ok().and_then(|s| s.parse::<i64>().ok()).unwrap_or(1) as u64
}

/// JSON object builder producing one NDJSON line.
pub struct Obj(String);
impl Obj {
    pub fn new(ev: &str) -> Self {
        let mut s = String::with_capacity(128);
        s.push_str("{\"ev\":");
        push_str_lit(&mut s, ev);
        Obj(s)
    }
    pub fn raw(body: &str) -> Self {
        // body is `"k":v,...` without braces
        let mut s = String::with_capacity(body.len() + 2);
        s.push('{');
        s.push_str(body);
        Obj(s)
    }
    fn key(&mut self, k: &str) {
        if self.0.len() > 1 {
            self.0.push(',');
        }
        push_str_lit(&mut self.0, k);
        self.0.push(':');
    }
    pub fn int(mut self, k: &str, v: i64) -> Self {
        self.key(k);
        let _ = write!(self.0, "{}", v);
        self
    }
    pub fn uint(self, k: &str, v: u64) -> Self {
        assert!(v < (1u64 << 31), "value {} of field {} does not fit a TLC int", v, k);
        self.int(k, v as i64)
    }
    pub fn bool(mut self, k: &str, v: bool) -> Self {
        self.key(k);
        self.0.push_str(if v { "true" } else { "false" });
        self
    }
    pub fn str(mut self, k: &str, v: &str) -> Self {
        self.key(k);
        push_str_lit(&mut self.0, v);
        self
    }
    pub fn ints<I: IntoIterator<Item = i64>>(mut self, k: &str, vs: I) -> Self {
        self.key(k);
        self.0.push('[');
        let mut first = true;
        for v in vs {
            if !first {
                self.0.push(',');
            }
            first = false;
            let _ = write!(self.0, "{}", v);
        }
        self.0.push(']');
        self
    }
    pub fn strs<'a, I: IntoIterator<Item = &'a str>>(mut self, k: &str, vs: I) -> Self {
        self.key(k);
        self.0.push('[');
        let mut first = true;
        for v in vs {
            if !first {
                self.0.push(',');
            }
            first = false;
            push_str_lit(&mut self.0, v);
        }
        self.0.push(']');
        self
    }
    /// value is already-serialised JSON
    pub fn json(mut self, k: &str, v: &str) -> Self {
        self.key(k);
        self.0.push_str(v);
        self
    }
    pub fn finish(mut self) -> String {
        self.0.push('}');
        self.0
    }
}

pub fn push_str_lit(s: &mut String, v: &str) {
    s.push('"');
    for c in v.chars() {
        match c {
            '"' => s.push_str("\\\""),
            '\\' => s.push_str("\\\\"),
            '\n' => s.push_str("\\n"),
            '\r' => s.push_str("\\r"),
            '\t' => s.push_str("\\t"),
            c if (c as u32) < 0x20 => {
                let _ = write!(s, "\\u{:04x}", c as u32);
            }
            c => s.push(c),
        }
    }
    s.push('"');
}

/// JSON array of already-serialised values.
pub fn json_array<I: IntoIterator<Item = String>>(vs: I) -> String {
    let mut s = String::from("[");
    let mut first = true;
    for v in vs {
        if !first {
            s.push(',');
        }
        first = false;
        s.push_str(&v);
    }
    s.push(']');
    s
}

pub fn json_ints<I: IntoIterator<Item = i64>>(vs: I) -> String {
    json_array(vs.into_iter().map(|v| v.to_string()))
}

/// Thread-safe in-memory event log; the order of `push` calls is the trace order.
pub struct Trace {
    lines: Mutex<Vec<String>>,
}
impl Default for Trace {
    fn default() -> Self {
        Self::new()
    }
}
impl Trace {
    pub const fn new() -> Self {
        Trace { lines: Mutex::new(Vec::new()) }
    }
    pub fn push(&self, line: String) {
        self.lines.lock().unwrap().push(line);
    }
    pub fn len(&self) -> usize {
        self.lines.lock().unwrap().len()
    }
    pub fn is_empty(&self) -> bool {
        self.len() == 0
    }
    pub fn take(&self) -> Vec<String> {
        std::mem::take(&mut *self.lines.lock().unwrap())
    }
    pub fn write_to(&self, path: &str) -> std::io::Result<usize> {
        let lines = self.lines.lock().unwrap();
        let f = std::fs::File::create(path)?;
        let mut w = std::io::BufWriter::new(f);
        for l in lines.iter() {
            w.write_all(l.as_bytes())?;
            w.write_all(b"\n")?;
        }
        w.flush()?;
        Ok(lines.len())
    }
}

/// Simple `--key value` argument lookup.
pub fn arg(name: &str) -> Option<String> {
    let args: Vec<String> = std::env::args().collect();
    let key = format!("--{}", name);
    args.iter().position(|a| *a == key).and_then(|i| args.get(i + 1).cloned())
}
pub fn arg_or(name: &str, default: &str) -> String {
    arg(name).unwrap_or_else(|| default.to_string())
}
pub fn arg_u64(name: &str, default: u64) -> u64 {
    arg(name).and_then(|s| s.parse().ok()).unwrap_or(default)
}
pub fn flag(name: &str) -> bool {
    let key = format!("--{}", name);
    std::env::args().any(|a| a == key)
}

/// Run `f`, converting a panic into its message.
pub fn catch<R>(f: impl FnOnce() -> R + std::panic::UnwindSafe) -> Result<R, String> {
    std::panic::catch_unwind(f).map_err(|e| {
        if let Some(s) = e.downcast_ref::<&str>() {
            s.to_string()
        } else if let Some(s) = e.downcast_ref::<String>() {
            s.clone()
        } else {
            "panic".to_string()
        }
    })
}
