//! Minimal libc bindings (no external crates): the driver's own mmap/munmap and a fault-free
//! readability / writability probe through a pipe (the kernel reports EFAULT instead of raising
//! SIGSEGV).
use std::ffi::c_void;

extern "C" {
    fn mmap(addr: *mut c_void, len: usize, prot: i32, flags: i32, fd: i32, off: i64) -> *mut c_void;
    fn munmap(addr: *mut c_void, len: usize) -> i32;
    fn pipe(fds: *mut i32) -> i32;
    fn read(fd: i32, buf: *mut c_void, n: usize) -> isize;
    fn write(fd: i32, buf: *const c_void, n: usize) -> isize;
    fn prctl(option: i32, a2: usize, a3: usize, a4: usize, a5: usize) -> i32;
}

/// Do not back the probed chunks with transparent huge pages (a probe touches two words per
/// chunk; zero-filling 2 MB pages for that dominates the run time). Best effort.
pub fn disable_thp() {
    const PR_SET_THP_DISABLE: i32 = 41;
    unsafe { prctl(PR_SET_THP_DISABLE, 1, 0, 0, 0) };
}

const PROT_NONE: i32 = 0;
const PROT_READ: i32 = 1;
const PROT_WRITE: i32 = 2;
const MAP_PRIVATE: i32 = 0x02;
const MAP_FIXED: i32 = 0x10;
const MAP_ANONYMOUS: i32 = 0x20;
const MAP_NORESERVE: i32 = 0x4000;
const MAP_FIXED_NOREPLACE: i32 = 0x100000;

/// Reserve [addr, addr+len) with PROT_NONE if and only if nothing is mapped there.
pub fn reserve_exact(addr: usize, len: usize) -> bool {
    let p = unsafe {
        mmap(addr as *mut c_void, len, PROT_NONE,
             MAP_PRIVATE | MAP_ANONYMOUS | MAP_NORESERVE | MAP_FIXED_NOREPLACE, -1, 0)
    };
    if p as usize == addr {
        return true;
    }
    if p as isize != -1 {
        // an old kernel ignoring MAP_FIXED_NOREPLACE placed it elsewhere
        unsafe { munmap(p, len) };
    }
    false
}

/// The driver's ("the VM's") own read-write mapping; fails if something is mapped there.
pub fn map_rw_noreplace(addr: usize, len: usize) -> bool {
    let p = unsafe {
        mmap(addr as *mut c_void, len, PROT_READ | PROT_WRITE,
             MAP_PRIVATE | MAP_ANONYMOUS | MAP_FIXED_NOREPLACE, -1, 0)
    };
    p as usize == addr
}

#[allow(dead_code)]
pub fn map_rw_fixed(addr: usize, len: usize) -> bool {
    let p = unsafe {
        mmap(addr as *mut c_void, len, PROT_READ | PROT_WRITE,
             MAP_PRIVATE | MAP_ANONYMOUS | MAP_FIXED, -1, 0)
    };
    p as usize == addr
}

pub fn unmap(addr: usize, len: usize) -> bool {
    unsafe { munmap(addr as *mut c_void, len) == 0 }
}

pub struct Prober {
    r: i32,
    w: i32,
}

impl Prober {
    pub fn new() -> Self {
        let mut fds = [0i32; 2];
        let rc = unsafe { pipe(fds.as_mut_ptr()) };
        assert!(rc == 0, "pipe() failed");
        Prober { r: fds[0], w: fds[1] }
    }
    /// (readable, writable) of the 8 bytes at `addr`, without ever faulting. Writability is only
    /// tested on readable memory (the original content is written back).
    pub fn probe(&self, addr: usize) -> (bool, bool) {
        let mut buf = [0u8; 8];
        let n = unsafe { write(self.w, addr as *const c_void, 8) };
        if n != 8 {
            return (false, false);
        }
        let n = unsafe { read(self.r, buf.as_mut_ptr() as *mut c_void, 8) };
        assert!(n == 8);
        let n = unsafe { write(self.w, buf.as_ptr() as *const c_void, 8) };
        assert!(n == 8);
        let n = unsafe { read(self.r, addr as *mut c_void, 8) };
        if n != 8 {
            // drain
            let n = unsafe { read(self.r, buf.as_mut_ptr() as *mut c_void, 8) };
            assert!(n == 8);
            return (true, false);
        }
        (true, true)
    }
    /// Full probe: kernel-checked access first, then a real store and load.
    pub fn probe_rw(&self, addr: usize, stamp: u64) -> bool {
        let (r, w) = self.probe(addr);
        if !(r && w) {
            return false;
        }
        unsafe {
            let p = addr as *mut u64;
            let old = std::ptr::read_volatile(p);
            std::ptr::write_volatile(p, stamp);
            let back = std::ptr::read_volatile(p);
            std::ptr::write_volatile(p, old);
            back == stamp
        }
    }
}
