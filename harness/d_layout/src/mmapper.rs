//! C30: drive a private `ChunkStateMmapper` (hook `mmtk::verif::verif_mmapper::VerifMmapper`)
//! through the `Mmapper` trait on an address window the driver owns.
//!
//! Window: `n` chunks; chunk 0 and chunk n-1 are guard chunks that no call ever touches. The
//! window is placed relative to a slab boundary of the two-level state table (`--places`):
//!   straddle: the boundary lies in the middle of the window,
//!   interior: the window lies inside one slab,
//!   slabstart / slabend: the first / last non-guard chunk is the first / last chunk of a slab.
//!
//! Rows (all offsets in bytes relative to the window base):
//!  {"ev":"Reset","n":N,"cb":bytes per chunk,"place":..,"slab":chunk index of the slab boundary,
//!   "imaA":[offsets at which is_mapped_address is sampled after every call]}
//!  {"ev":"Op","d":depth,"k":"Q"|"E"|"K","start":..,"len":..,"vm":[chunks mapped by the driver
//!   itself before a K call],"ok":bool,"err":"..","st":[state of every chunk],
//!   "ima":[is_mapped_address of each sample offset],"rw":[1 = the chunk is recorded as Mapped and its first and last
//!   word could be read and written (kernel-checked access, then a real store and load)]}
//!  {"ev":"Crash",...} when the code under test panicked.
//!  {"ev":"VmMapFailed","c":chunk,..} when the driver could not map a chunk recorded as Unmapped
//!   (MAP_FIXED_NOREPLACE found an existing mapping in the window nobody else uses).
//! `d` = k > 0: the row is the k-th call of a history whose first k-1 calls are the most recent
//! rows with d = 1..k-1 (depth-first enumeration: the driver re-executes the prefix on a fresh
//! mmapper and a freshly unmapped window, and logs only the last call). `d` = 0: the row
//! continues the history of the previous row (linear histories).
use crate::sys;
use mmtk::util::heap::vm_layout::BYTES_IN_CHUNK;
use mmtk::util::Address;
use mmtk::verif::verif_mmapper::VerifMmapper;
use vcommon::*;

const CB: usize = BYTES_IN_CHUNK;
const PAGE: usize = 4096;

#[derive(Clone, Copy, Debug)]
struct Op {
    kind: u8, // b'Q' quarantine, b'E' ensure_mapped, b'K' mark_as_mapped
    start: usize,
    len: usize,
}

struct Win {
    base: usize,
    n: usize,
    prober: sys::Prober,
    /// depth of the call being executed (for the watchdog's Hang row)
    depth: std::cell::Cell<usize>,
}

fn addr(a: usize) -> Address {
    unsafe { Address::from_usize(a) }
}

impl Win {
    /// offsets at which `is_mapped_address` is sampled after every call: first byte, an odd
    /// offset in the middle and the last byte of every chunk
    fn samples(&self) -> Vec<usize> {
        let mut v = vec![];
        for c in 0..self.n {
            v.push(c * CB);
            v.push(c * CB + CB / 2 + 1 + 8 * c);
            v.push(c * CB + CB - 1);
        }
        v
    }
    fn reset(&self) -> VerifMmapper {
        // unmapping a range in which nothing is mapped is fine
        assert!(sys::unmap(self.base, self.n * CB));
        VerifMmapper::new()
    }
    fn state(&self, m: &VerifMmapper, c: usize) -> u8 {
        m.state(addr(self.base + c * CB))
    }
    /// chunks touched by [start, start+len) -- used only to prepare preconditions
    fn touched(&self, op: &Op) -> std::ops::Range<usize> {
        (op.start / CB)..((op.start + op.len + CB - 1) / CB)
    }
    /// Is the call within the documented preconditions in the current (real) state?
    fn legal(&self, m: &VerifMmapper, op: &Op) -> bool {
        match op.kind {
            b'Q' | b'K' => self.touched(op).all(|c| self.state(m, c) != 1),
            _ => true,
        }
    }
    /// Execute one call. Returns (chunks the driver mapped itself, result).
    fn exec(&self, m: &VerifMmapper, op: &Op) -> (Vec<usize>, Result<Result<(), String>, String>) {
        let mut vm = vec![];
        if op.kind == b'K' {
            for c in self.touched(op) {
                if self.state(m, c) == 0 {
                    if !sys::map_rw_noreplace(self.base + c * CB, CB) {
                        // the chunk is recorded as Unmapped but something (in this window: only
                        // the mmapper) has left a mapping there: reported, not judged
                        return (vm, Err(format!("VMMAP_FAILED {}", c)));
                    }
                    vm.push(c);
                }
            }
        }
        let start = addr(self.base + op.start);
        let (kind, len) = (op.kind, op.len);
        let mref = std::panic::AssertUnwindSafe(m);
        crate::watch::begin(self.depth.get(), format!("{} start {} len {}", op.kind as char, op.start, op.len));
        let r = catch(move || match kind {
            b'Q' => mref.quarantine(start, len / PAGE),
            b'E' => mref.ensure_mapped(start, len / PAGE),
            _ => {
                mref.mark_as_mapped(start, len);
                Ok(())
            }
        });
        crate::watch::end();
        (vm, r)
    }
    fn row(&self, m: &VerifMmapper, d: usize, op: &Op, vm: &[usize],
           r: &Result<Result<(), String>, String>, stamp: u64) -> String {
        let kind = (op.kind as char).to_string();
        match r {
            Err(msg) if msg.starts_with("VMMAP_FAILED") => Obj::new("VmMapFailed").int("d", d as i64)
                .str("k", &kind).uint("start", op.start as u64).uint("len", op.len as u64)
                .int("c", msg[13..].parse::<i64>().unwrap_or(-1))
                .ints("st", (0..self.n).map(|c| self.state(m, c) as i64)).finish(),
            Err(msg) => Obj::new("Crash").int("d", d as i64).str("k", &kind)
                .uint("start", op.start as u64).uint("len", op.len as u64).str("msg", msg).finish(),
            Ok(res) => {
                let st: Vec<i64> = (0..self.n).map(|c| self.state(m, c) as i64).collect();
                let ima_a = self.samples();
                let ima: Vec<i64> = ima_a.iter()
                    .map(|a| m.is_mapped_address(addr(self.base + a)) as i64).collect();
                // probed: the chunks recorded as Mapped (nothing is required of the others)
                let rw: Vec<i64> = (0..self.n).map(|c| {
                    let a = self.base + c * CB;
                    (st[c] == 2 && self.prober.probe_rw(a, stamp) && self.prober.probe_rw(a + CB - 8, !stamp)) as i64
                }).collect();
                Obj::new("Op").int("d", d as i64).str("k", &kind)
                    .uint("start", op.start as u64).uint("len", op.len as u64)
                    .ints("vm", vm.iter().map(|c| *c as i64))
                    .bool("ok", res.is_ok())
                    .str("err", res.as_ref().err().map(|s| s.as_str()).unwrap_or(""))
                    .ints("st", st)
                    .ints("ima", ima)
                    .ints("rw", rw)
                    .finish()
            }
        }
    }
}

/// Find a free window around / near a slab boundary.
fn place(n: usize, place: &str) -> (usize, usize) {
    let slab = 1usize << VerifMmapper::log_slab_bytes();
    // candidate boundaries (multiples of the slab size), far away from anything a process maps
    let cands = [0x2000_0000_0000usize, 0x3000_0000_0000, 0x1000_0000_0000, 0x0800_0000_0000,
                 0x4000_0000_0000, 0x5000_0000_0000];
    for b in cands {
        assert!(b % slab == 0);
        // slab = index (within the window) of the first chunk of the upper slab
        let (base, slab_idx) = match place {
            "straddle" => (b - (n / 2) * CB, n / 2),
            "interior" => (b + 1237 * CB, 0),
            "slabstart" => (b - CB, 1),       // guard chunk below the boundary, chunk 1 is first in slab
            "slabend" => (b - (n - 1) * CB, n - 1), // chunk n-2 is the last of the slab, guard above
            _ => panic!("unknown placement {}", place),
        };
        // the range must be free now; reserve it to find out, then release it again (the mmapper
        // refuses to quarantine over an existing mapping)
        if sys::reserve_exact(base, n * CB) {
            assert!(sys::unmap(base, n * CB));
            return (base, slab_idx);
        }
    }
    panic!("no free address window found");
}

/// All calls on chunk ranges [a, b] (inclusive, non-guard chunks), with byte offsets that are
/// chunk-unaligned at both ends in most variants.
fn candidate_ops(n: usize, rng: &mut Rng, variants: usize) -> Vec<Op> {
    let mut v = vec![];
    for a in 1..(n - 1) {
        for b in a..(n - 1) {
            for kind in [b'Q', b'E', b'K'] {
                for var in 0..variants {
                    v.push(shape(kind, a, b, var, rng));
                }
            }
        }
    }
    v
}

/// A call whose range overlaps exactly chunks a..=b. Variant 0: random unaligned ends; 1: both
/// ends aligned; 2: minimal overlap (last page of a, first page of b); 3: start aligned only;
/// 4: end aligned only; 5: start aligned, one page into b (mark_as_mapped: the last byte of a to
/// the first byte of b).
fn shape(kind: u8, a: usize, b: usize, var: usize, rng: &mut Rng) -> Op {
    let pages_in_chunk = CB / PAGE;
    let (so, eo) = match var {
        0 => (rng.range(1, pages_in_chunk as u64 - 1) as usize, rng.range(1, pages_in_chunk as u64 - 1) as usize),
        1 => (0, pages_in_chunk),
        2 => (pages_in_chunk - 1, 1),
        3 => (0, rng.range(1, pages_in_chunk as u64 - 1) as usize),
        4 => (rng.range(1, pages_in_chunk as u64 - 1) as usize, pages_in_chunk),
        _ => (0, 1),
    };
    if kind == b'K' && var >= 5 {
        // byte-granular minimal overlap: the last byte of chunk a .. the first byte of chunk b
        return if a == b {
            let at = if var == 5 { a * CB } else { a * CB + CB - 1 };
            Op { kind, start: at, len: 1 }
        } else {
            Op { kind, start: (a + 1) * CB - 1, len: (b - a - 1) * CB + 2 }
        };
    }
    // start = so pages into chunk a; end = eo pages into chunk b (eo >= 1)
    let mut start = a * CB + so * PAGE;
    let mut end = b * CB + eo * PAGE;
    if end <= start {
        // single chunk with crossed offsets: swap to keep a non-empty range inside the chunk
        let (s2, e2) = (b * CB + (eo - 1) * PAGE, a * CB + (so + 1) * PAGE);
        start = s2;
        end = e2;
        if end <= start {
            end = start + PAGE;
        }
    }
    let mut len = end - start;
    if kind == b'K' && var != 1 {
        // mark_as_mapped takes bytes: make both ends byte-unaligned too (staying inside a..=b)
        let cut_s = rng.range(1, 63) as usize;
        let cut_e = rng.range(1, 63) as usize;
        if len > cut_s + cut_e + 1 {
            start += cut_s;
            len -= cut_s + cut_e;
        }
    }
    Op { kind, start, len }
}

struct Gen<'a> {
    win: &'a Win,
    trace: &'a Trace,
    rng: Rng,
    maxd: usize,
    variants: usize,
    shard: (u64, u64),
    rows: u64,
    stamp: u64,
}

impl Gen<'_> {
    fn replay(&self, hist: &[Op]) -> VerifMmapper {
        let m = self.win.reset();
        for op in hist {
            let (_, r) = self.win.exec(&m, op);
            // a crash or an error inside a prefix was already logged when that prefix was a leaf
            let _ = r;
        }
        m
    }
    fn dfs(&mut self, hist: &mut Vec<Op>) {
        let d = hist.len() + 1;
        let cands = candidate_ops(self.win.n, &mut self.rng, self.variants);
        for (ci, op) in cands.into_iter().enumerate() {
            if d == 1 && ci as u64 % self.shard.1 != self.shard.0 {
                continue; // another shard explores this first call
            }
            self.win.depth.set(d);
            let m = self.replay(hist);
            if !self.win.legal(&m, &op) {
                continue;
            }
            let (vm, r) = self.win.exec(&m, &op);
            self.stamp = self.stamp.wrapping_mul(6364136223846793005).wrapping_add(1442695040888963407);
            self.trace.push(self.win.row(&m, d, &op, &vm, &r, self.stamp));
            self.rows += 1;
            let fine = matches!(r, Ok(Ok(())));
            if fine && d < self.maxd {
                hist.push(op);
                self.dfs(hist);
                hist.pop();
            }
        }
    }
}

fn reset_row(win: &Win, place: &str, slab: usize) -> String {
    Obj::new("Reset").uint("n", win.n as u64).uint("cb", CB as u64).str("place", place)
        .uint("slab", slab as u64).ints("imaA", win.samples().iter().map(|a| *a as i64)).finish()
}

pub fn run() {
    let out = arg_or("out", "mmapper.ndjson");
    let mode = arg_or("mode", "tree");
    let n = arg_u64("n", 6) as usize; // window chunks including the two guard chunks
    let maxd = arg_u64("depth", 2) as usize;
    let variants = arg_u64("variants", 1) as usize;
    let places = arg_or("places", "straddle");
    let nhist = arg_u64("hist", 100);
    let maxlen = arg_u64("maxlen", 12) as usize;
    let shard = crate::map32::parse_shard(&arg_or("shard", "0/1"));
    let trace: &'static Trace = &crate::watch::TRACE;
    crate::watch::spawn(out.clone());
    sys::disable_thp();
    let mut rng = Rng::new(seed_from_env() ^ 0xC30);
    let mut total = 0u64;
    for pl in places.split(',') {
        let (base, slab) = place(n, pl);
        let win = Win { base, n, prober: sys::Prober::new(), depth: std::cell::Cell::new(0) };
        match mode.as_str() {
            "tree" => {
                trace.push(reset_row(&win, pl, slab));
                let mut g = Gen { win: &win, trace, rng: rng.clone(), maxd, variants,
                                  shard, rows: 0, stamp: 0x5EED };
                g.dfs(&mut vec![]);
                rng = g.rng.clone();
                total += g.rows;
            }
            _ => {
                // random linear histories: small ranges on a larger window so that histories do
                // not saturate (every chunk Mapped) at once
                let mut stamp = 0xABCDu64;
                for _ in 0..nhist {
                    trace.push(reset_row(&win, pl, slab));
                    let m = win.reset();
                    let len = rng.range(1, maxlen as u64) as usize;
                    let mut done = 0;
                    let mut attempts = 0;
                    while done < len && attempts < 20 * len {
                        attempts += 1;
                        let a = rng.range(1, n as u64 - 2) as usize;
                        let span = if rng.chance(1, 4) { rng.range(0, n as u64 - 3) } else { rng.range(0, 2) } as usize;
                        let b = (a + span).min(n - 2);
                        let kind = *rng.pick(&[b'Q', b'E', b'K', b'Q']);
                        let var = rng.below(6) as usize;
                        let op = shape(kind, a, b, var, &mut rng);
                        if !win.legal(&m, &op) {
                            continue;
                        }
                        let (vm, r) = win.exec(&m, &op);
                        stamp = stamp.wrapping_mul(6364136223846793005).wrapping_add(1442695040888963407);
                        trace.push(win.row(&m, 0, &op, &vm, &r, stamp));
                        total += 1;
                        done += 1;
                        if !matches!(r, Ok(Ok(()))) {
                            break;
                        }
                    }
                }
            }
        }
        assert!(sys::unmap(win.base, win.n * CB));
    }
    let lines = trace.write_to(&out).expect("write trace");
    println!("rows={} lines={}", total, lines);
}
