//! Watchdog: a call into the code under test that does not return within `VERIF_HANG_SECS`
//! (default 60; calls normally take microseconds) is reported as a `Hang` row -- data for the
//! trace specification, which has no action for it -- and the driver stops.
use std::sync::atomic::{AtomicU64, Ordering};
use std::sync::Mutex;
use std::time::Instant;
use vcommon::*;

pub static TRACE: Trace = Trace::new();
static BEGAN_MS: AtomicU64 = AtomicU64::new(0); // 0: no call in progress
static WHAT: Mutex<(i64, String)> = Mutex::new((0, String::new()));
static T0: Mutex<Option<Instant>> = Mutex::new(None);

fn now_ms() -> u64 {
    let mut t0 = T0.lock().unwrap();
    let t = t0.get_or_insert_with(Instant::now);
    t.elapsed().as_millis() as u64 + 1
}

/// A call (or a replayed history ending in this call) into the code under test begins.
pub fn begin(d: usize, what: String) {
    *WHAT.lock().unwrap() = (d as i64, what);
    BEGAN_MS.store(now_ms(), Ordering::SeqCst);
}

pub fn end() {
    BEGAN_MS.store(0, Ordering::SeqCst);
}

pub fn spawn(out: String) {
    let secs: u64 = std::env::var("VERIF_HANG_SECS").ok().and_then(|s| s.parse().ok()).unwrap_or(60);
    now_ms();
    std::thread::spawn(move || loop {
        std::thread::sleep(std::time::Duration::from_millis(250));
        let b = BEGAN_MS.load(Ordering::SeqCst);
        if b != 0 && now_ms() > b + secs * 1000 {
            let (d, what) = WHAT.lock().unwrap().clone();
            TRACE.push(Obj::new("Hang").int("d", d).str("what", &what).uint("secs", secs).finish());
            let lines = TRACE.write_to(&out).expect("write trace");
            println!("rows=0 lines={} fallbacks=0 HANG after {} s in: {}", lines, secs, what);
            std::process::exit(0);
        }
    });
}
