//! C29: drive a private `Map32` (hook `mmtk::verif::verif_map32::VerifMap32`; not the global
//! `VM_MAP`) in a process that first installs a 32-bit style / compressed-pointer `VMLayout`
//! through the public `MMTKBuilder::set_vm_layout`, so that the chunk map is the configuration
//! MMTk really uses `Map32` with (the global `SFT_MAP`, which `Map32` clears for every freed
//! chunk, is then the sparse chunk map).
//!
//! The shared discontiguous range handed to `finalize_static_space_map` is a window of `n`
//! chunks; all chunk numbers in the trace are relative to its first chunk.
//!
//! Rows:
//!  {"ev":"Reset","n":N,"spaces":S,"layout":..,"fin":is_finalized,"dstart":chunk reported by the
//!   finalize callback,"avail":..,"desc":[..],"gdesc":[below,above]}
//!  {"ev":"Op","d":depth,"mode":"pr"|"raw","k":"A"|"F"|"X","s":space,"n":chunks requested (A),
//!   "r":region (F) / any-chunk (X), -1 = zero address,"ret":A: first chunk of the new region or
//!   -1 for the zero address; raw F: freed chunk count; else -1,
//!   "desc":[descriptor index of every chunk, looked up at its first byte],
//!   "descE":[the same at the last byte of every chunk],"gdesc":[chunk below, chunk above the window],
//!   "walk":[per space: [[first chunk, get_contiguous_region_chunks, region size in chunks], ..]
//!   following get_next_contiguous_region from the space's head],"avail":available chunks}
//!  "rc":{"heads":[..],<observation>} (optional, `--recycle`): the row's history was executed on the
//!   previous instance after releasing all spaces; this is what was observed after the release.
//!  {"ev":"Crash",..} when the code under test panicked.
//! `d` as in the mmapper driver: d = k > 0 is the k-th call of a history whose prefix are the most
//! recent rows of depth 1..k-1 (the driver re-executes the prefix on a fresh instance); d = 0
//! continues the previous row's history.
//!
//! mode "pr": calls go through the real `CommonPageResource` (grow_discontiguous_space,
//! release_discontiguous_chunks, release_all_chunks), which keeps the list head. mode "raw": the
//! driver calls the `VMMap` methods directly and keeps the head itself following the same
//! documented protocol (head := returned region; before freeing the head region, head := its
//! successor; after free_all_chunks, head := zero); free_all_chunks may then be given any
//! region of the space.
use mmtk::util::heap::vm_layout::{VMLayout, BYTES_IN_CHUNK};
use mmtk::util::Address;
use mmtk::verif::verif_map32::{init_sft_map, VerifMap32};
use vcommon::*;

const CB: usize = BYTES_IN_CHUNK;

#[derive(Clone, Copy, Debug, PartialEq)]
enum Op {
    Alloc { s: usize, n: usize },
    /// free the idx-th (oldest first) live region the driver obtained for space s
    Free { s: usize, idx: usize },
    /// free all of space s; raw mode: through the idx-th live region (None: the head / zero)
    FreeAll { s: usize, idx: Option<usize> },
}

struct Inst {
    m: VerifMap32,
    raw: bool,
    from: usize,
    n: usize,
    spaces: usize,
    /// regions the driver holds per space (first chunk address), oldest first -- generator state
    live: Vec<Vec<usize>>,
    /// raw mode: the list heads kept by the driver
    heads: Vec<usize>,
}

fn addr(a: usize) -> Address {
    unsafe { Address::from_usize(a) }
}

struct Outcome {
    k: &'static str,
    s: usize,
    n: i64,
    r: i64,
    ret: i64,
}

impl Inst {
    fn new(from: usize, n: usize, spaces: usize, raw: bool) -> Inst {
        let m = VerifMap32::new(spaces, addr(from), addr(from + n * CB - 1));
        Inst { m, raw, from, n, spaces, live: vec![vec![]; spaces], heads: vec![0; spaces] }
    }
    fn rel(&self, a: usize) -> i64 {
        if a == 0 {
            -1
        } else {
            // may lie outside the window if the code under test misbehaves: still a small number
            (a as i64 - self.from as i64) / CB as i64
        }
    }
    fn head(&self, s: usize) -> usize {
        if self.raw {
            self.heads[s]
        } else {
            self.m.pr_head(s).as_usize()
        }
    }
    fn applicable(&self, op: &Op) -> bool {
        match *op {
            Op::Alloc { .. } => true,
            Op::Free { s, idx } => idx < self.live[s].len(),
            Op::FreeAll { s, idx: Some(i) } => self.raw && i < self.live[s].len(),
            Op::FreeAll { idx: None, .. } => true,
        }
    }
    fn exec(&mut self, op: &Op) -> Outcome {
        match *op {
            Op::Alloc { s, n } => {
                let ret = if self.raw {
                    let a = self.m.raw_allocate(s, n, addr(self.heads[s])).as_usize();
                    if a != 0 {
                        self.heads[s] = a;
                    }
                    a
                } else {
                    self.m.pr_grow(s, n).as_usize()
                };
                if ret != 0 {
                    self.live[s].push(ret);
                }
                Outcome { k: "A", s, n: n as i64, r: -1, ret: self.rel(ret) }
            }
            Op::Free { s, idx } => {
                let r = self.live[s].remove(idx);
                let ret = if self.raw {
                    if r == self.heads[s] {
                        self.heads[s] = self.m.next_region(addr(r)).as_usize();
                    }
                    self.m.raw_free(addr(r)) as i64
                } else {
                    self.m.pr_release(s, addr(r));
                    -1
                };
                Outcome { k: "F", s, n: -1, r: self.rel(r), ret }
            }
            Op::FreeAll { s, idx } => {
                let any = match idx {
                    Some(i) => self.live[s][i],
                    None => self.head(s),
                };
                if self.raw {
                    self.m.raw_free_all(addr(any));
                    self.heads[s] = 0;
                } else {
                    self.m.pr_release_all(s);
                }
                self.live[s].clear();
                Outcome { k: "X", s, n: -1, r: self.rel(any), ret: -1 }
            }
        }
    }
    fn desc_at(&self, a: usize) -> i64 {
        self.m.descriptor_index(addr(a))
    }
    fn observe(&self, o: Obj) -> Obj {
        let desc: Vec<i64> = (0..self.n).map(|c| self.desc_at(self.from + c * CB)).collect();
        let desc_e: Vec<i64> = (0..self.n).map(|c| self.desc_at(self.from + c * CB + CB - 1)).collect();
        let gdesc = vec![self.desc_at(self.from - CB), self.desc_at(self.from + self.n * CB)];
        let mut walks = vec![];
        for s in 0..self.spaces {
            let mut items = vec![];
            let mut a = self.head(s);
            let mut fuel = 4 * self.n + 8; // a corrupted (cyclic) list is reported, not followed forever
            while a != 0 && fuel > 0 {
                fuel -= 1;
                let chunks = self.m.region_chunks(addr(a));
                let size = self.m.region_size(addr(a));
                items.push(json_ints([self.rel(a), clamp(chunks), clamp(size / CB)]));
                a = self.m.next_region(addr(a)).as_usize();
            }
            walks.push(json_array(items));
        }
        o.ints("desc", desc)
            .ints("descE", desc_e)
            .ints("gdesc", gdesc)
            .json("walk", &json_array(walks))
            .int("avail", clamp(self.m.available_chunks()))
    }
}

fn clamp(v: usize) -> i64 {
    // the spec only compares; anything absurd (e.g. an underflowed counter) stays representable
    if v < (1usize << 30) {
        v as i64
    } else {
        (1i64 << 30) + (v % 1024) as i64
    }
}

struct Ctx<'a> {
    trace: &'a Trace,
    from: usize,
    n: usize,
    spaces: usize,
    maxreq: usize,
    maxd: usize,
    raw: bool,
    layout: String,
    rows: u64,
    recycle: bool,
    /// (i, k): explore only the histories whose second call has index = i modulo k
    shard: (u64, u64),
    inst: Option<Inst>,
    fallbacks: u64,
}

impl Ctx<'_> {
    fn reset_row(&self) {
        let i = Inst::new(self.from, self.n, self.spaces, self.raw);
        let o = Obj::new("Reset")
            .uint("n", self.n as u64)
            .uint("spaces", self.spaces as u64)
            .str("layout", &self.layout)
            .str("mode", if self.raw { "raw" } else { "pr" })
            .bool("fin", i.m.is_finalized())
            .int("dstart", i.rel(i.m.discontig_start().as_usize()));
        self.trace.push(i.observe(o).finish());
    }
    /// Bring an instance into the state after `hist` (each entry: call and the result it had when
    /// it was logged). With `--recycle` the previous instance is reused: all spaces are released
    /// (the observation after that is attached to the row as "rc" and must be the initial one) and
    /// the prefix is re-executed; should a re-executed call return something else than it did
    /// when it was logged (the choice of the free run is not specified, so this would be legal),
    /// the instance is dropped and the prefix is executed on a fresh one.
    fn prepare(&mut self, hist: &[(Op, i64)]) -> (Inst, Option<String>) {
        if self.recycle {
            if let Some(mut i) = self.inst.take() {
                for s in 0..self.spaces {
                    i.exec(&Op::FreeAll { s, idx: None });
                }
                let heads: Vec<i64> = (0..self.spaces).map(|s| i.rel(i.head(s))).collect();
                let rc = i.observe(Obj::raw("").ints("heads", heads)).finish();
                let same = hist.iter().all(|(op, ret)| i.exec(op).ret == *ret);
                if same {
                    return (i, Some(rc));
                }
                self.fallbacks += 1;
            }
        }
        let mut i = Inst::new(self.from, self.n, self.spaces, self.raw);
        for (op, _) in hist {
            i.exec(op);
        }
        (i, None)
    }
    /// run `hist`, then `op`; log the row of `op`. Returns None if `op` is not applicable,
    /// Some(None) after a crash, Some(Some((ret, live region counts))) otherwise.
    #[allow(clippy::type_complexity)]
    fn run_and_log(&mut self, hist: &[(Op, i64)], op: &Op, d: usize) -> Option<Option<(i64, Vec<usize>)>> {
        let op2 = *op;
        let mode = if self.raw { "raw" } else { "pr" };
        let this = std::panic::AssertUnwindSafe(&mut *self);
        crate::watch::begin(d, format!("{} history {:?} then {:?}", mode, hist, op));
        let res = catch(move || {
            let this = this;
            let (mut i, rc) = this.0.prepare(hist);
            if !i.applicable(&op2) {
                this.0.inst = Some(i);
                return None;
            }
            let out = i.exec(&op2);
            let mut o = Obj::new("Op")
                .int("d", d as i64)
                .str("mode", mode)
                .str("k", out.k)
                .int("s", out.s as i64 + 1)
                .int("n", out.n)
                .int("r", out.r)
                .int("ret", out.ret);
            if let Some(rc) = rc {
                o = o.json("rc", &rc);
            }
            let live: Vec<usize> = i.live.iter().map(|l| l.len()).collect();
            let line = i.observe(o).finish();
            this.0.inst = Some(i);
            Some((line, out.ret, live))
        });
        crate::watch::end();
        match res {
            Ok(None) => None,
            Ok(Some((line, ret, live))) => {
                self.trace.push(line);
                self.rows += 1;
                Some(Some((ret, live)))
            }
            Err(msg) => {
                self.inst = None; // unknown state: never reused
                self.trace.push(
                    Obj::new("Crash").int("d", d as i64).str("mode", mode)
                        .str("op", &format!("{:?}", op)).str("msg", &msg).finish(),
                );
                self.rows += 1;
                Some(None)
            }
        }
    }
    /// candidate calls after `hist`. Spaces are interchangeable: a space index is only used once
    /// all smaller indices have been used (first-use order), which removes symmetric histories.
    fn candidates(&self, hist: &[(Op, i64)], live: &[usize]) -> Vec<Op> {
        let used = hist.iter().map(|o| match o.0 {
            Op::Alloc { s, .. } | Op::Free { s, .. } | Op::FreeAll { s, .. } => s + 1,
        }).max().unwrap_or(0);
        let smax = (used + 1).min(self.spaces);
        let mut v = vec![];
        for s in 0..smax {
            for n in 1..=self.maxreq {
                v.push(Op::Alloc { s, n });
            }
            for idx in 0..live[s] {
                v.push(Op::Free { s, idx });
            }
            v.push(Op::FreeAll { s, idx: None });
            if self.raw {
                for idx in 0..live[s] {
                    v.push(Op::FreeAll { s, idx: Some(idx) });
                }
            }
        }
        v
    }
    /// `live`: number of regions the driver holds per space after `hist`
    fn dfs(&mut self, hist: &mut Vec<(Op, i64)>, live: &[usize]) {
        let d = hist.len() + 1;
        for (ci, op) in self.candidates(hist, live).into_iter().enumerate() {
            // sharding is by the second call (there are only a few first calls once symmetric
            // histories are removed); the rows of depth 1 appear in every shard
            if d == 2 && ci as u64 % self.shard.1 != self.shard.0 {
                continue; // another shard explores this extension
            }
            match self.run_and_log(hist, &op, d) {
                None => continue,
                Some(None) => continue, // crashed: logged, not extended
                Some(Some((ret, live2))) => {
                    if d < self.maxd {
                        hist.push((op, ret));
                        self.dfs(hist, &live2);
                        hist.pop();
                    }
                }
            }
        }
    }
}

pub fn parse_shard(s: &str) -> (u64, u64) {
    let mut it = s.split('/');
    let i: u64 = it.next().and_then(|x| x.parse().ok()).expect("--shard i/k");
    let k: u64 = it.next().and_then(|x| x.parse().ok()).expect("--shard i/k");
    assert!(k >= 1 && i < k);
    (i, k)
}

fn install_layout(name: &str) -> usize {
    // returns the address of the first chunk of the test window
    let layout = match name {
        // the compressed-pointer configuration used by the OpenJDK binding
        "compressed" => VMLayout {
            log_address_space: 35,
            heap_start: addr(0x4000_0000),
            heap_end: addr(0x8_0000_0000),
            log_space_extent: 31,
            force_use_contiguous_spaces: false,
        },
        "32bit" => VMLayout::new_32bit(),
        "default64" => VMLayout::default(),
        _ => panic!("unknown layout {}", name),
    };
    let start = layout.heap_start.as_usize();
    let mut b = mmtk::MMTKBuilder::new_no_env_vars();
    b.set_vm_layout(layout);
    init_sft_map();
    start
}

pub fn run() {
    let out = arg_or("out", "map32.ndjson");
    let mode = arg_or("mode", "tree");
    let layout = arg_or("layout", "compressed");
    let n = arg_u64("n", 5) as usize;
    let spaces = arg_u64("spaces", 3) as usize;
    let maxreq = arg_u64("maxreq", 3) as usize;
    let maxd = arg_u64("depth", 3) as usize;
    let api = arg_or("api", "pr,raw");
    let nhist = arg_u64("hist", 20);
    let maxlen = arg_u64("maxlen", 100) as usize;
    let recycle = flag("recycle");
    let shard = parse_shard(&arg_or("shard", "0/1"));
    let mut fallbacks = 0u64;
    let offset = arg_u64("offset", 37) as usize; // window start, in chunks above heap_start
    let heap_start = install_layout(&layout);
    // every fresh Map32 touches a handful of words in four tables of 128-256 MB each; with
    // transparent huge pages each touch zero-fills 2 MB (the 512 MB SFT table above, which is
    // written completely, is better off with them)
    crate::sys::disable_thp();
    let from = heap_start + offset * CB;
    let trace: &'static Trace = &crate::watch::TRACE;
    crate::watch::spawn(out.clone());
    let mut rng = Rng::new(seed_from_env() ^ 0xC29);
    let mut total = 0u64;
    for a in api.split(',') {
        let raw = a == "raw";
        let mut cx = Ctx { trace, from, n, spaces, maxreq, maxd, raw, layout: layout.clone(), rows: 0,
                           recycle, shard, inst: None, fallbacks: 0 };
        if mode == "tree" {
            cx.reset_row();
            cx.dfs(&mut vec![], &vec![0; spaces]);
        } else {
            for _ in 0..nhist {
                cx.reset_row();
                // one long history on one instance; a crash ends it
                let len = rng.range(maxlen as u64 / 2, maxlen as u64) as usize;
                // phases bias the mix so that the window fills up, fragments and drains
                let tr = trace;
                let (from, n, spaces, raw) = (cx.from, cx.n, cx.spaces, cx.raw);
                let mut r2 = rng.clone();
                let maxreq = cx.maxreq;
                let mode_s = if raw { "raw" } else { "pr" };
                let res = catch(std::panic::AssertUnwindSafe(|| {
                    let mut i = Inst::new(from, n, spaces, raw);
                    let mut rows = 0u64;
                    for step in 0..len {
                        let phase = (step / 16) % 3; // 0: grow, 1: mixed, 2: shrink
                        let p_alloc = [70, 45, 20][phase];
                        let s = r2.below(spaces as u64) as usize;
                        let x = r2.below(100);
                        let op = if x < p_alloc {
                            let big = r2.chance(1, 6);
                            let nn = if big { r2.range(1, (n as u64 / 2).max(1)) } else { r2.range(1, maxreq as u64) };
                            Op::Alloc { s, n: nn as usize }
                        } else if x < 96 {
                            if i.live[s].is_empty() {
                                continue;
                            }
                            Op::Free { s, idx: r2.below(i.live[s].len() as u64) as usize }
                        } else if raw && !i.live[s].is_empty() && r2.chance(1, 2) {
                            Op::FreeAll { s, idx: Some(r2.below(i.live[s].len() as u64) as usize) }
                        } else {
                            Op::FreeAll { s, idx: None }
                        };
                        crate::watch::begin(0, format!("{} random history, step {}: {:?}", mode_s, step, op));
                        let o = i.exec(&op);
                        crate::watch::end();
                        let obj = Obj::new("Op").int("d", 0).str("mode", mode_s).str("k", o.k)
                            .int("s", o.s as i64 + 1).int("n", o.n).int("r", o.r).int("ret", o.ret);
                        tr.push(i.observe(obj).finish());
                        rows += 1;
                    }
                    rows
                }));
                rng = r2;
                match res {
                    Ok(r) => cx.rows += r,
                    Err(msg) => {
                        trace.push(Obj::new("Crash").int("d", 0).str("mode", mode_s).str("op", "")
                            .str("msg", &msg).finish());
                        cx.rows += 1;
                    }
                }
            }
        }
        total += cx.rows;
        fallbacks += cx.fallbacks;
    }
    let lines = trace.write_to(&out).expect("write trace");
    println!("rows={} lines={} fallbacks={}", total, lines, fallbacks);
}
