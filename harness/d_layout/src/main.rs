//! Layout family drivers (C29 Map32, C30 ChunkStateMmapper). Each sub-command exercises the real
//! mmtk-core code and writes an NDJSON trace validated by a TLA+ trace specification.
//! The drivers never judge; they only report.

mod map32;
mod mmapper;
mod sys;
mod watch;

fn main() {
    let args: Vec<String> = std::env::args().collect();
    match args.get(1).map(|s| s.as_str()).unwrap_or("") {
        "mmapper" => mmapper::run(),
        "map32" => map32::run(),
        _ => {
            eprintln!("usage: d_layout <mmapper|map32> --out <trace.ndjson> [options]");
            std::process::exit(2);
        }
    }
}
