//! A minimal `VMBinding` for the component-level drivers of this crate. No `MMTK` instance is ever
//! created; only the object model is reached (`ForwardingMetadata::mark_last_word_of_object` asks
//! `ObjectModel::get_current_size` and `ref_to_object_start`). Every other callback is
//! `unimplemented!()`.
//!
//! Object model: object reference == object start == header; the first word of an object stores
//! its size in bytes.
use mmtk::util::copy::{CopySemantics, GCWorkerCopyContext};
use mmtk::util::opaque_pointer::*;
use mmtk::util::{Address, ObjectReference};
use mmtk::vm::*;
use mmtk::Mutator;

#[derive(Default)]
pub struct DummyVM;

pub type DummySlot = mmtk::vm::slot::SimpleSlot;

impl VMBinding for DummyVM {
    type VMObjectModel = OM;
    type VMScanning = Scan;
    type VMCollection = Coll;
    type VMActivePlan = AP;
    type VMReferenceGlue = RG;
    type VMSlot = DummySlot;
    type VMMemorySlice = mmtk::vm::slot::UnimplementedMemorySlice;
}

pub struct OM;
impl ObjectModel<DummyVM> for OM {
    const GLOBAL_LOG_BIT_SPEC: VMGlobalLogBitSpec = VMGlobalLogBitSpec::side_first();
    const LOCAL_FORWARDING_POINTER_SPEC: VMLocalForwardingPointerSpec =
        VMLocalForwardingPointerSpec::in_header(0);
    const LOCAL_FORWARDING_BITS_SPEC: VMLocalForwardingBitsSpec =
        VMLocalForwardingBitsSpec::side_first();
    const LOCAL_MARK_BIT_SPEC: VMLocalMarkBitSpec =
        VMLocalMarkBitSpec::side_after(Self::LOCAL_FORWARDING_BITS_SPEC.as_spec());
    const LOCAL_LOS_MARK_NURSERY_SPEC: VMLocalLOSMarkNurserySpec =
        VMLocalLOSMarkNurserySpec::side_after(Self::LOCAL_MARK_BIT_SPEC.as_spec());
    const UNIFIED_OBJECT_REFERENCE_ADDRESS: bool = true;
    const OBJECT_REF_OFFSET_LOWER_BOUND: isize = 0;

    fn copy(
        _from: ObjectReference,
        _semantics: CopySemantics,
        _copy_context: &mut GCWorkerCopyContext<DummyVM>,
    ) -> ObjectReference {
        unimplemented!()
    }
    fn copy_to(_from: ObjectReference, _to: ObjectReference, _region: Address) -> Address {
        unimplemented!()
    }
    fn get_current_size(object: ObjectReference) -> usize {
        // the header word stores the size in bytes
        unsafe { object.to_raw_address().load::<usize>() }
    }
    fn get_size_when_copied(object: ObjectReference) -> usize {
        Self::get_current_size(object)
    }
    fn get_align_when_copied(_object: ObjectReference) -> usize {
        8
    }
    fn get_align_offset_when_copied(_object: ObjectReference) -> usize {
        0
    }
    fn get_reference_when_copied_to(_from: ObjectReference, _to: Address) -> ObjectReference {
        unimplemented!()
    }
    fn get_type_descriptor(_reference: ObjectReference) -> &'static [i8] {
        unimplemented!()
    }
    fn ref_to_object_start(object: ObjectReference) -> Address {
        object.to_raw_address()
    }
    fn ref_to_header(object: ObjectReference) -> Address {
        object.to_raw_address()
    }
    fn dump_object(_object: ObjectReference) {
        unimplemented!()
    }
}

pub struct Scan;
impl Scanning<DummyVM> for Scan {
    fn scan_roots_in_mutator_thread(
        _tls: VMWorkerThread,
        _mutator: &'static mut Mutator<DummyVM>,
        _factory: impl RootsWorkFactory<DummySlot>,
    ) {
        unimplemented!()
    }
    fn scan_vm_specific_roots(_tls: VMWorkerThread, _factory: impl RootsWorkFactory<DummySlot>) {
        unimplemented!()
    }
    fn scan_object<SV: SlotVisitor<DummySlot>>(
        _tls: VMWorkerThread,
        _object: ObjectReference,
        _slot_visitor: &mut SV,
    ) {
        unimplemented!()
    }
    fn notify_initial_thread_scan_complete(_partial_scan: bool, _tls: VMWorkerThread) {
        unimplemented!()
    }
    fn supports_return_barrier() -> bool {
        unimplemented!()
    }
    fn prepare_for_roots_re_scanning() {
        unimplemented!()
    }
}

pub struct Coll;
impl Collection<DummyVM> for Coll {
    fn stop_all_mutators<F>(_tls: VMWorkerThread, _mutator_visitor: F)
    where
        F: FnMut(&'static mut Mutator<DummyVM>),
    {
        unimplemented!()
    }
    fn resume_mutators(_tls: VMWorkerThread) {
        unimplemented!()
    }
    fn block_for_gc(_tls: VMMutatorThread) {
        unimplemented!()
    }
    fn spawn_gc_thread(_tls: VMThread, _ctx: GCThreadContext<DummyVM>) {
        unimplemented!()
    }
}

pub struct AP;
impl ActivePlan<DummyVM> for AP {
    fn number_of_mutators() -> usize {
        unimplemented!()
    }
    fn is_mutator(_tls: VMThread) -> bool {
        unimplemented!()
    }
    fn mutator(_tls: VMMutatorThread) -> &'static mut Mutator<DummyVM> {
        unimplemented!()
    }
    fn mutators<'a>() -> Box<dyn Iterator<Item = &'a mut Mutator<DummyVM>> + 'a> {
        unimplemented!()
    }
}

pub struct RG;
impl ReferenceGlue<DummyVM> for RG {
    type FinalizableType = ObjectReference;
    fn set_referent(_reference: ObjectReference, _referent: ObjectReference) {
        unimplemented!()
    }
    fn get_referent(_object: ObjectReference) -> Option<ObjectReference> {
        unimplemented!()
    }
    fn clear_referent(_object: ObjectReference) {
        unimplemented!()
    }
    fn enqueue_references(_references: &[ObjectReference], _tls: VMWorkerThread) {
        unimplemented!()
    }
}
