//! Family "policy": stand-alone (component-level) drivers for C36 (large-object treadmill),
//! C37 (Compressor forwarding metadata) and C38 (MemBalancer / fixed heap-size triggers).
//! Each sub-command runs the real mmtk-core code through the `cfg(mmtk_verif)` hooks and writes an
//! NDJSON trace that a TLA+ trace specification validates. The drivers never judge.

mod compressor;
mod dummyvm;
mod membalancer;
mod treadmill;

fn main() {
    let args: Vec<String> = std::env::args().collect();
    match args.get(1).map(|s| s.as_str()).unwrap_or("") {
        "treadmill" => treadmill::run(),
        "compressor" => compressor::run(),
        "membalancer" => membalancer::run(),
        _ => {
            eprintln!("usage: d_policy treadmill|compressor|membalancer --out <trace.ndjson> [...]");
            std::process::exit(2);
        }
    }
}
