//! C38: drive the real `MemBalancerTrigger` and `FixedHeapSizeTrigger` (hooks
//! `mmtk::verif::gc_trigger_hooks`) with histories of GC statistics and pending-allocation
//! notifications and record the heap size they report after every event.
//!
//! Page counts are 64-bit; in the trace they are 4 limbs of 16 bits, most significant first.
//! Rows ("cur" = `get_current_heap_size_in_pages()` right after the call, "h" = history number,
//! "cls" = magnitude class of the history's inputs, other fields = the inputs, evidence only):
//!   {"ev":"NewDyn","h":..,"cls":..,"min":L,"max":L,"cur":L}
//!   {"ev":"NewFixed","h":..,"bytes":L,"cur":L}
//!   {"ev":"Pending","p":L,"cur":L}          on_pending_allocation(p)
//!   {"ev":"GCStart",..} {"ev":"GCRelease",..} {"ev":"GCEnd",..} {"ev":"NurseryGCEnd",..}
//!   {"ev":"Compute",..}                      compute_new_heap_limit with explicit statistics
//!   {"ev":"Query","cur":L}                   only the getter
//!   {"ev":"Crash","h":..,"cls":..,"op":"..","msg":"..",..inputs}   the call panicked
//! Magnitude classes: "A" every page count <= 2^32 (16 TiB of 4 KiB pages), "B" <= 2^52 (the whole
//! 64-bit address space), "C" anything up to usize::MAX. Durations are finite and >= 0 (they are
//! differences of `Instant`s in the real callbacks), 0 = equal timestamps.
use crate::dummyvm::DummyVM;
use mmtk::verif::gc_trigger_hooks::{verif_fixed_trigger, VerifMemBalancer};
use vcommon::*;

fn limbs(v: usize) -> String {
    let v = v as u64;
    format!("[{},{},{},{}]", (v >> 48) & 0xffff, (v >> 32) & 0xffff, (v >> 16) & 0xffff, v & 0xffff)
}
fn f(v: f64) -> String {
    format!("{:e}", v)
}

struct Out {
    trace: Trace,
    hist: u64,
    crashes: u64,
    gcends: u64,
    moved: u64,
    at_min: u64,
    at_max: u64,
    inside: u64,
}

struct Dyn<'a> {
    out: &'a mut Out,
    mb: Option<VerifMemBalancer>,
    min: usize,
    max: usize,
    cls: &'static str,
    last: usize,
}

impl<'a> Dyn<'a> {
    fn new(out: &'a mut Out, min: usize, max: usize, cls: &'static str) -> Self {
        out.hist += 1;
        let h = out.hist;
        let res = catch(move || {
            let mb = VerifMemBalancer::new(min, max);
            let cur = mb.policy::<DummyVM>().get_current_heap_size_in_pages();
            (mb, cur)
        });
        match res {
            Ok((mb, cur)) => {
                out.trace.push(
                    Obj::new("NewDyn")
                        .int("h", h as i64)
                        .str("cls", cls)
                        .json("min", &limbs(min))
                        .json("max", &limbs(max))
                        .json("cur", &limbs(cur))
                        .finish(),
                );
                Dyn { out, mb: Some(mb), min, max, cls, last: cur }
            }
            Err(msg) => {
                out.crashes += 1;
                out.trace.push(
                    Obj::new("NewDyn").int("h", h as i64).str("cls", cls).json("min", &limbs(min))
                        .json("max", &limbs(max)).json("cur", "[]").finish(),
                );
                out.trace.push(Obj::new("Crash").int("h", h as i64).str("cls", cls).str("op", "new").str("msg", &msg).finish());
                Dyn { out, mb: None, min, max, cls, last: 0 }
            }
        }
    }
    fn alive(&self) -> bool {
        self.mb.is_some()
    }
    /// Run one call; log `ev` with the inputs `o` and the heap size afterwards, or a Crash row.
    fn call(&mut self, ev: &str, o: Obj, body: impl FnOnce(&VerifMemBalancer) + std::panic::UnwindSafe) {
        let mb = match self.mb.take() {
            Some(mb) => mb,
            None => return,
        };
        let res = catch(std::panic::AssertUnwindSafe(move || {
            body(&mb);
            let cur = mb.policy::<DummyVM>().get_current_heap_size_in_pages();
            (mb, cur)
        }));
        match res {
            Ok((mb, cur)) => {
                if ev == "GCEnd" || ev == "Compute" {
                    self.out.gcends += 1;
                    if cur != self.last {
                        self.out.moved += 1;
                    }
                    if cur == self.min {
                        self.out.at_min += 1;
                    } else if cur == self.max {
                        self.out.at_max += 1;
                    } else {
                        self.out.inside += 1;
                    }
                }
                self.last = cur;
                self.out.trace.push(o.str("k", "dyn").json("cur", &limbs(cur)).finish());
                self.mb = Some(mb);
            }
            Err(msg) => {
                self.out.crashes += 1;
                let line = o.finish();
                // re-label the row as a Crash row, keeping its inputs
                let body = line.trim_start_matches('{').trim_end_matches('}');
                let body = body.splitn(2, ',').nth(1).unwrap_or("");
                let mut c = Obj::new("Crash")
                    .int("h", self.out.hist as i64)
                    .str("cls", self.cls)
                    .str("op", ev)
                    .str("msg", &msg)
                    .json("min", &limbs(self.min))
                    .json("max", &limbs(self.max))
                    .finish();
                if !body.is_empty() {
                    c.pop();
                    c.push(',');
                    c.push_str(body);
                    c.push('}');
                }
                self.out.trace.push(c);
            }
        }
    }
    fn pending(&mut self, p: usize) {
        self.call("Pending", Obj::new("Pending").json("p", &limbs(p)), move |mb| {
            mb.policy::<DummyVM>().on_pending_allocation(p)
        });
    }
    fn gc_start(&mut self, secs: f64, reserved: usize) {
        self.call(
            "GCStart",
            Obj::new("GCStart").str("secs", &f(secs)).json("reserved", &limbs(reserved)),
            move |mb| mb.gc_start(secs, reserved),
        );
    }
    fn gc_release(&mut self, reserved: usize) {
        self.call("GCRelease", Obj::new("GCRelease").json("reserved", &limbs(reserved)), move |mb| {
            mb.gc_release(reserved)
        });
    }
    fn gc_end(&mut self, secs: f64, reserved: usize, coll_reserved: usize) {
        self.call(
            "GCEnd",
            Obj::new("GCEnd")
                .bool("gen", false)
                .str("secs", &f(secs))
                .json("reserved", &limbs(reserved))
                .json("extra", &limbs(coll_reserved)),
            move |mb| mb.gc_end(secs, reserved, coll_reserved),
        );
    }
    fn gen_gc_start(&mut self, secs: f64) {
        self.call("GCStart", Obj::new("GCStart").bool("gen", true).str("secs", &f(secs)), move |mb| {
            mb.gen_gc_start(secs)
        });
    }
    fn gen_gc_release(&mut self, nursery: bool, mature: usize) {
        self.call(
            "GCRelease",
            Obj::new("GCRelease").bool("gen", true).bool("nursery", nursery).json("mature", &limbs(mature)),
            move |mb| mb.gen_gc_release(nursery, mature),
        );
    }
    fn gen_gc_end(&mut self, secs: f64, nursery: bool, mature: usize, reserved: usize, extra: usize) {
        let ev = if nursery { "NurseryGCEnd" } else { "GCEnd" };
        self.call(
            ev,
            Obj::new(ev)
                .bool("gen", true)
                .str("secs", &f(secs))
                .json("mature", &limbs(mature))
                .json("reserved", &limbs(reserved))
                .json("extra", &limbs(extra)),
            move |mb| mb.gen_gc_end(secs, nursery, mature, reserved, extra),
        );
    }
    #[allow(clippy::too_many_arguments)]
    fn compute(&mut self, live: usize, extra: usize, ap: f64, at: f64, cp: f64, ct: f64) {
        self.call(
            "Compute",
            Obj::new("Compute")
                .json("live", &limbs(live))
                .json("extra", &limbs(extra))
                .str("ap", &f(ap))
                .str("at", &f(at))
                .str("cp", &f(cp))
                .str("ct", &f(ct)),
            move |mb| mb.compute_with(live, extra, ap, at, cp, ct),
        );
    }
    fn query(&mut self) {
        self.call("Query", Obj::new("Query"), |_| {});
    }
}

fn class_of(vals: &[usize]) -> &'static str {
    let m = vals.iter().copied().max().unwrap_or(0) as u64;
    if m <= 1u64 << 32 {
        "A"
    } else if m <= 1u64 << 52 {
        "B"
    } else {
        "C"
    }
}

/// One non-generational GC cycle.
#[derive(Clone, Copy)]
struct Cycle {
    pending: usize,
    alloc_secs: f64,
    res_start: usize,
    res_release: usize,
    gc_secs: f64,
    res_end: usize,
    coll_reserved: usize,
}

fn run_cycles(out: &mut Out, min: usize, max: usize, cycles: &[Cycle]) {
    let mut vals = vec![min, max];
    for c in cycles {
        vals.extend_from_slice(&[c.pending, c.res_start, c.res_release, c.res_end, c.coll_reserved]);
    }
    let mut d = Dyn::new(out, min, max, class_of(&vals));
    for c in cycles {
        if !d.alive() {
            break;
        }
        if c.pending > 0 {
            d.pending(c.pending);
        }
        d.gc_start(c.alloc_secs, c.res_start);
        d.gc_release(c.res_release);
        d.gc_end(c.gc_secs, c.res_end, c.coll_reserved);
    }
}

const PAIRS: [(usize, usize); 11] = [
    (0, 0),
    (0, 1),
    (1, 1),
    (1, 2),
    (8, 8),
    (16, 4096),
    (1 << 18, 1 << 20),
    (1, 1 << 30),
    (1 << 30, 1 << 30),
    (0, 1 << 52),
    (1 << 52, 1 << 52),
];

fn exhaustive(out: &mut Out, l2: bool, l3: bool) {
    for (min, max) in PAIRS {
        let big: usize = if max > 1 << 32 { 1 << 52 } else { 1 << 32 };
        // one cycle, full grid
        for alloc_secs in [0.0, 1e-9, 3.0] {
            for gc_secs in [0.0, 2.0] {
                for res_start in [0, max, big] {
                    for res_end in [0, 1, max.saturating_add(1)] {
                        for pending in [0, 1, big] {
                            for coll_reserved in [0, max] {
                                let c = Cycle {
                                    pending,
                                    alloc_secs,
                                    res_start,
                                    res_release: res_start,
                                    gc_secs,
                                    res_end,
                                    coll_reserved,
                                };
                                run_cycles(out, min, max, &[c]);
                            }
                        }
                    }
                }
            }
        }
        // two / three cycles over a reduced template set (first GC without previous statistics,
        // second/third with them; zero and non-zero times mixed so that both the formula and
        // the fallback heuristic are reached with and without previous statistics)
        let mut templates = vec![];
        for alloc_secs in [0.0, 3.0] {
            for res_start in [0, big] {
                for res_end in [0, max.saturating_add(1)] {
                    for pending in [0, big] {
                        templates.push(Cycle {
                            pending,
                            alloc_secs,
                            res_start,
                            res_release: res_start / 2,
                            gc_secs: if alloc_secs == 0.0 { 0.0 } else { 0.5 },
                            res_end,
                            coll_reserved: 0,
                        });
                    }
                }
            }
        }
        if l2 {
            for a in templates.iter() {
                for b in templates.iter() {
                    run_cycles(out, min, max, &[*a, *b]);
                }
            }
        }
        if l3 {
            let t8: Vec<Cycle> = templates.iter().copied().step_by(2).collect();
            for a in t8.iter() {
                for b in t8.iter() {
                    for c in t8.iter() {
                        run_cycles(out, min, max, &[*a, *b, *c]);
                    }
                }
            }
        }
    }
}

/// Directed histories at the edges of the magnitude classes (deterministic; whatever they do is
/// judged like any other history).
fn directed(out: &mut Out) {
    // class C: a live-page count no 64-bit address space can hold
    {
        let mut d = Dyn::new(out, 1, 1000, "C");
        d.gc_start(1.0, usize::MAX);
        d.gc_release(usize::MAX);
        d.gc_end(1.0, usize::MAX, 1);
    }
    // class C: pending notifications summing to usize::MAX pages
    {
        let mut d = Dyn::new(out, 1, 1000, "C");
        d.pending(usize::MAX);
        d.gc_start(1.0, 10);
        d.gc_release(10);
        d.gc_end(1.0, 10, 0);
    }
    // class C: the pending counter itself wraps (fetch_add)
    {
        let mut d = Dyn::new(out, 1, 1000, "C");
        d.pending(usize::MAX);
        d.pending(usize::MAX);
        d.pending(3);
        d.gc_start(1.0, 10);
        d.gc_release(10);
        d.gc_end(1.0, 10, 0);
    }
    // class B: every page count <= 2^52, but rates no machine reaches: a generational plan
    // promotes 2^52 pages within a nanosecond, then spends 10^7 s collecting one mature page
    {
        let mut d = Dyn::new(out, 1, 1 << 52, "B");
        d.gen_gc_start(1e-9);
        d.gen_gc_release(false, 1 << 52);
        d.gen_gc_end(1e7, false, 1, 1 << 52, 0);
    }
    // class B: the largest values of the class at ordinary rates
    {
        let mut d = Dyn::new(out, 0, 1 << 52, "B");
        d.pending(1 << 52);
        d.gc_start(5.0, 1 << 52);
        d.gc_release(1 << 52);
        d.gc_end(5.0, 1 << 52, 1 << 52);
        d.pending(1 << 60);
        d.gc_start(5.0, 1 << 52);
        d.gc_release(1 << 51);
        d.gc_end(5.0, 1 << 51, 1 << 52);
    }
    // class A: 16 TiB heap, equal timestamps followed by nanosecond intervals
    {
        let mut d = Dyn::new(out, 1 << 20, 1 << 32, "A");
        d.pending(1 << 32);
        d.gc_start(0.0, 1 << 32);
        d.gc_release(1 << 32);
        d.gc_end(0.0, 1, 0);
        d.gc_start(1e-9, 1 << 32);
        d.gc_release(1 << 32);
        d.gc_end(1e7, 1 << 32, 1 << 32);
        d.gc_start(1e-9, 1 << 32);
        d.gc_release(1);
        d.gc_end(1e7, 1, 1 << 32);
    }
}

fn rand_pages(rng: &mut Rng, min: usize, max: usize, limit: usize) -> usize {
    let v = match rng.below(12) {
        0 => 0,
        1 => 1,
        2 => min,
        3 => max,
        4 => max.saturating_add(1),
        5 => min.saturating_sub(1),
        6 => rng.below(64) as usize,
        7 => (max as u64).saturating_mul(rng.range(1, 4)) as usize,
        8 => limit,
        9 => limit - rng.below(3) as usize,
        10 => (rng.next() as usize) % (limit / 2 + 1),
        _ => {
            // log-uniform
            let bits = rng.below(64);
            ((rng.next() >> (63 - bits)) as usize) % limit.max(1)
        }
    };
    v.min(limit)
}
fn rand_secs(rng: &mut Rng) -> f64 {
    match rng.below(10) {
        0 | 1 => 0.0,
        2 => 1e-9,
        3 => 1e-6,
        4 => 1e3,
        5 => 1e7,
        6 => rng.below(1000) as f64 * 1e-9,
        _ => rng.below(10_000_000) as f64 * 1e-6,
    }
}

fn random_history(out: &mut Out, rng: &mut Rng, ncycles: usize) {
    let (cls, limit): (&'static str, usize) = match rng.below(10) {
        0..=4 => ("A", 1 << 32),
        5..=7 => ("B", 1 << 52),
        _ => ("C", usize::MAX),
    };
    let lim_mm = limit.min(1 << 52); // bytes_to_pages_up of a usize never exceeds 2^52
    let (min, max) = match rng.below(6) {
        0 => {
            let v = rand_pages(rng, 0, 0, lim_mm);
            (v, v)
        }
        1 => (0, rand_pages(rng, 0, 0, lim_mm)),
        _ => {
            let a = rand_pages(rng, 1, 1000, lim_mm);
            let b = rand_pages(rng, 1, 1000, lim_mm);
            (a.min(b), a.max(b))
        }
    };
    let mode = rng.below(3); // 0 non-generational, 1 generational, 2 raw statistics
    let mut d = Dyn::new(out, min, max, cls);
    // in class A/B keep the accumulated pending below 2^60 ("#mutators x max")
    let mut pending_budget: u128 = if cls == "C" { u128::MAX } else { 1u128 << 60 };
    for _ in 0..ncycles {
        if !d.alive() {
            break;
        }
        for _ in 0..rng.below(4) {
            let p = rand_pages(rng, min, max, limit);
            if (p as u128) <= pending_budget {
                pending_budget -= p as u128;
                d.pending(p);
            }
        }
        if rng.chance(1, 8) {
            d.query();
        }
        match mode {
            0 => {
                d.gc_start(rand_secs(rng), rand_pages(rng, min, max, limit));
                d.gc_release(rand_pages(rng, min, max, limit));
                d.gc_end(rand_secs(rng), rand_pages(rng, min, max, limit), rand_pages(rng, min, max, limit));
            }
            1 => {
                let nursery = rng.chance(2, 3);
                let mature = rand_pages(rng, min, max, limit);
                d.gen_gc_start(rand_secs(rng));
                d.gen_gc_release(nursery, mature);
                d.gen_gc_end(
                    rand_secs(rng),
                    nursery,
                    rand_pages(rng, min, max, limit),
                    rand_pages(rng, min, max, limit),
                    rand_pages(rng, min, max, limit),
                );
            }
            _ => {
                d.compute(
                    rand_pages(rng, min, max, limit),
                    rand_pages(rng, min, max, limit),
                    rand_pages(rng, min, max, limit) as f64,
                    rand_secs(rng),
                    rand_pages(rng, min, max, limit) as f64,
                    rand_secs(rng),
                );
            }
        }
        if cls != "C" {
            pending_budget = 1u128 << 60; // on_gc_end cleared the pending pages
        }
    }
}

fn fixed_history(out: &mut Out, rng: &mut Rng, bytes: usize, n: usize) {
    out.hist += 1;
    let h = out.hist;
    let res = catch(move || {
        let t = verif_fixed_trigger::<DummyVM>(bytes);
        let cur = t.get_current_heap_size_in_pages();
        (t, cur)
    });
    let (t, cur) = match res {
        Ok(x) => x,
        Err(msg) => {
            out.crashes += 1;
            out.trace.push(Obj::new("Crash").int("h", h as i64).str("cls", "fixed").str("op", "new").str("msg", &msg).finish());
            return;
        }
    };
    out.trace.push(
        Obj::new("NewFixed").int("h", h as i64).json("bytes", &limbs(bytes)).json("cur", &limbs(cur)).finish(),
    );
    let t = std::panic::AssertUnwindSafe(t);
    for _ in 0..n {
        let p = match rng.below(4) {
            0 => 0,
            1 => 1,
            2 => usize::MAX,
            _ => rng.next() as usize,
        };
        let tr = &t;
        let res = catch(std::panic::AssertUnwindSafe(move || {
            tr.on_pending_allocation(p);
            (tr.get_current_heap_size_in_pages(), tr.get_max_heap_size_in_pages(), tr.can_heap_size_grow())
        }));
        match res {
            Ok((cur, maxp, grow)) => out.trace.push(
                Obj::new("Pending")
                    .str("k", "fixed")
                    .json("p", &limbs(p))
                    .json("cur", &limbs(cur))
                    .json("maxq", &limbs(maxp))
                    .bool("grow", grow)
                    .finish(),
            ),
            Err(msg) => {
                out.crashes += 1;
                out.trace.push(Obj::new("Crash").int("h", h as i64).str("cls", "fixed").str("op", "Pending").str("msg", &msg).finish());
                return;
            }
        }
    }
}

pub fn run() {
    let out_path = arg_or("out", "membalancer.ndjson");
    let l2 = arg_u64("l2", 1) == 1;
    let l3 = arg_u64("l3", 0) == 1;
    let nrandom = arg_u64("random", 300);
    let ncycles = arg_u64("cycles", 30) as usize;
    std::panic::set_hook(Box::new(|_| {}));
    let mut out = Out {
        trace: Trace::new(),
        hist: 0,
        crashes: 0,
        gcends: 0,
        moved: 0,
        at_min: 0,
        at_max: 0,
        inside: 0,
    };
    exhaustive(&mut out, l2, l3);
    directed(&mut out);
    let exh = out.hist;
    let mut rng = Rng::new(seed_from_env());
    for _ in 0..nrandom {
        random_history(&mut out, &mut rng, ncycles);
    }
    let dynh = out.hist;
    for bytes in [1usize, 4095, 4096, 4097, 1 << 20, (1 << 30) + 1, usize::MAX - 4095, usize::MAX] {
        fixed_history(&mut out, &mut rng, bytes, 12);
    }
    for _ in 0..(nrandom / 10).max(3) {
        let b = (rng.next() >> rng.below(60)) as usize;
        fixed_history(&mut out, &mut rng, b.max(1), 12);
    }
    let n = out.trace.write_to(&out_path).expect("write trace");
    println!(
        "SUMMARY {{\"rows\":{},\"histories\":{},\"grid_histories\":{},\"random_histories\":{},\"cycles\":{},\"fixed_histories\":{},\"limit_computations\":{},\"limit_changed\":{},\"at_min\":{},\"at_max\":{},\"strictly_inside\":{},\"crashes\":{}}}",
        n, out.hist, exh, dynh - exh, ncycles, out.hist - dynh, out.gcends, out.moved, out.at_min, out.at_max, out.inside, out.crashes
    );
}
