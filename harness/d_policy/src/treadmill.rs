//! C36: drive the real `TreadMill` (re-exported as `mmtk::verif::TreadMill`) the way
//! `LargeObjectSpace` drives it, and record every treadmill call with the resulting four sets.
//!
//! The caller side (`Los` below) is a transcription of the treadmill-related lines of
//! `policy/largeobjectspace.rs`: `initialize_object_metadata` (mark/nursery bits, then
//! `add_to_treadmill(object, into_nursery)`), `prepare` (`flip(full_heap)`), `trace_object`
//! (`test_and_mark` decides, then `copy(object, nursery_object)`), `release` (`collect_nursery`,
//! then `collect_mature` for a full-heap GC). It only decides *which calls are made*; it never
//! predicts what the treadmill answers. Every answer is logged and judged by Trace_Treadmill.tla.
//!
//! The trace is a tree (all histories share their prefixes): line 1 is the root, every other line
//! is one treadmill call; `kid` = line of the first child (0 if none), `sib` = line of the next
//! sibling (0 if none). Rows:
//!   {"ev":"Add","o":i,"n":bool, ...common}         add_to_treadmill(o, nursery = n)
//!   {"ev":"Flip","full":bool, ...}                  flip(full)
//!   {"ev":"Copy","o":i,"n":bool, ...}               copy(o, is_in_nursery = n)
//!   {"ev":"CollectNursery","ret":[..], ...}         collect_nursery() -> ret (in iteration order)
//!   {"ev":"CollectMature","ret":[..], ...}          collect_mature()  -> ret
//!   {"ev":"Crash","op":"..","msg":".."}             the call panicked
//! common: "sets":[[from],[to],[collect_nursery],[alloc_nursery]] (sorted), "e0"/"e1":
//! enumerate_objects(false/true) in visiting order, "emp":[is_from_space_empty,
//! is_to_space_empty, is_collect_nursery_empty, is_alloc_nursery_empty], "kid", "sib".
//! Objects are projected as (address - BASE) / STRIDE.
use mmtk::util::{Address, ObjectReference};
use mmtk::verif::TreadMill;
use std::collections::HashMap;
use vcommon::*;

const BASE: usize = 0x2000_0000_0000;
const STRIDE: usize = 0x1_0000;

fn obj(i: usize) -> ObjectReference {
    ObjectReference::from_raw_address(unsafe { Address::from_usize(BASE + i * STRIDE) }).unwrap()
}
fn proj(addr: usize) -> i64 {
    assert!(addr >= BASE && (addr - BASE) % STRIDE == 0);
    ((addr - BASE) / STRIDE) as i64
}
fn proj_obj(o: ObjectReference) -> i64 {
    proj(o.to_raw_address().as_usize())
}

#[derive(Clone, Copy, Debug, PartialEq)]
enum Op {
    /// allocation outside a GC: `initialize_object_metadata` with allocate_as_live == false
    AllocNursery(usize),
    /// allocation while a concurrent (full-heap) marking is in progress: allocate_as_live == true
    AllocLive(usize),
    /// `LargeObjectSpace::prepare(full_heap)`
    Prepare(bool),
    /// `LargeObjectSpace::trace_object(object)`
    Trace(usize),
    /// first half of `release`: `sweep_large_pages(true)`
    SweepNursery,
    /// second half of `release(full_heap = true)`: `sweep_large_pages(false)`
    SweepMature,
}

#[derive(Clone, Copy, PartialEq, Debug)]
enum Phase {
    Mutator,
    Tracing { full: bool },
    /// full-heap GC after the nursery sweep, before the mature sweep
    HalfSwept,
}

const MARK_BIT: u8 = 0b01;
const NURSERY_BIT: u8 = 0b10;
const LOS_BIT_MASK: u8 = 0b11;

/// The caller of the treadmill: the mark/nursery bookkeeping of `LargeObjectSpace`.
struct Los {
    treadmill: TreadMill,
    mark_state: u8,
    in_nursery_gc: bool,
    /// LOCAL_LOS_MARK_NURSERY_SPEC of every object that has been allocated and not yet swept
    bits: HashMap<usize, u8>,
    phase: Phase,
}

/// What one `Op` did to the treadmill (None: the LOS made no treadmill call).
enum Call {
    Add { o: usize, nursery: bool },
    Flip { full: bool },
    Copy { o: usize, nursery: bool },
    CollectNursery { ret: Vec<i64> },
    CollectMature { ret: Vec<i64> },
}

impl Los {
    fn new() -> Self {
        Los {
            treadmill: TreadMill::new(),
            mark_state: 0,
            in_nursery_gc: false,
            bits: HashMap::new(),
            phase: Phase::Mutator,
        }
    }

    /// `test_and_mark` of largeobjectspace.rs on the local copy of the bits.
    fn test_and_mark(&mut self, o: usize, value: u8) -> bool {
        let mask = if self.in_nursery_gc { LOS_BIT_MASK } else { MARK_BIT };
        let old = self.bits[&o];
        if old & mask == value {
            return false;
        }
        self.bits.insert(o, old & !LOS_BIT_MASK | value);
        true
    }

    /// Would `trace_object(o)` reach `treadmill.copy`? (used to prune no-op branches)
    fn trace_calls_copy(&self, o: usize) -> bool {
        let b = match self.bits.get(&o) {
            Some(b) => *b,
            None => return false,
        };
        let nursery_object = b & NURSERY_BIT == NURSERY_BIT;
        if !self.in_nursery_gc || nursery_object {
            let mask = if self.in_nursery_gc { LOS_BIT_MASK } else { MARK_BIT };
            b & mask != self.mark_state
        } else {
            false
        }
    }

    fn apply(&mut self, op: Op) -> Option<Call> {
        match op {
            Op::AllocNursery(o) | Op::AllocLive(o) => {
                let allocate_as_live = matches!(op, Op::AllocLive(_));
                let into_nursery = !allocate_as_live;
                let st = if into_nursery { self.mark_state | NURSERY_BIT } else { self.mark_state };
                self.bits.insert(o, st);
                self.treadmill.add_to_treadmill(obj(o), into_nursery);
                Some(Call::Add { o, nursery: into_nursery })
            }
            Op::Prepare(full) => {
                if full {
                    self.mark_state = MARK_BIT - self.mark_state;
                }
                self.treadmill.flip(full);
                self.in_nursery_gc = !full;
                self.phase = Phase::Tracing { full };
                Some(Call::Flip { full })
            }
            Op::Trace(o) => {
                let nursery_object = self.bits[&o] & NURSERY_BIT == NURSERY_BIT;
                if !self.in_nursery_gc || nursery_object {
                    let ms = self.mark_state;
                    if self.test_and_mark(o, ms) {
                        self.treadmill.copy(obj(o), nursery_object);
                        return Some(Call::Copy { o, nursery: nursery_object });
                    }
                }
                None
            }
            Op::SweepNursery => {
                let ret: Vec<i64> =
                    self.treadmill.collect_nursery().into_iter().map(proj_obj).collect();
                for r in ret.iter() {
                    self.bits.remove(&(*r as usize));
                }
                self.phase = match self.phase {
                    Phase::Tracing { full: true } => Phase::HalfSwept,
                    _ => Phase::Mutator,
                };
                Some(Call::CollectNursery { ret })
            }
            Op::SweepMature => {
                let ret: Vec<i64> =
                    self.treadmill.collect_mature().into_iter().map(proj_obj).collect();
                for r in ret.iter() {
                    self.bits.remove(&(*r as usize));
                }
                self.phase = Phase::Mutator;
                Some(Call::CollectMature { ret })
            }
        }
    }

    /// The operations the LOS protocol allows now, over object ids 1..=nobj.
    fn enabled(&self, nobj: usize, all_free_ids: bool) -> Vec<Op> {
        let mut v = vec![];
        let free: Vec<usize> = (1..=nobj).filter(|i| !self.bits.contains_key(i)).collect();
        let free: Vec<usize> = if all_free_ids { free } else { free.into_iter().take(1).collect() };
        match self.phase {
            Phase::Mutator => {
                for o in free {
                    v.push(Op::AllocNursery(o));
                }
                v.push(Op::Prepare(false));
                v.push(Op::Prepare(true));
            }
            Phase::Tracing { full } => {
                for o in 1..=nobj {
                    if self.trace_calls_copy(o) {
                        v.push(Op::Trace(o));
                    }
                }
                if full {
                    for o in free {
                        v.push(Op::AllocLive(o));
                    }
                }
                v.push(Op::SweepNursery);
            }
            Phase::HalfSwept => v.push(Op::SweepMature),
        }
        v
    }
}

fn row(los: &Los, call: &Call) -> Obj {
    let o = match call {
        Call::Add { o, nursery } => Obj::new("Add").int("o", *o as i64).bool("n", *nursery),
        Call::Flip { full } => Obj::new("Flip").bool("full", *full),
        Call::Copy { o, nursery } => Obj::new("Copy").int("o", *o as i64).bool("n", *nursery),
        Call::CollectNursery { ret } => Obj::new("CollectNursery").ints("ret", ret.iter().copied()),
        Call::CollectMature { ret } => Obj::new("CollectMature").ints("ret", ret.iter().copied()),
    };
    let sets = los.treadmill.verif_sets();
    let t = &los.treadmill;
    o.json("sets", &json_array(sets.iter().map(|s| json_ints(s.iter().map(|a| proj(*a))))))
        .ints("e0", t.verif_enumerate(false).into_iter().map(proj))
        .ints("e1", t.verif_enumerate(true).into_iter().map(proj))
        .json(
            "emp",
            &json_array(
                [
                    t.is_from_space_empty(),
                    t.is_to_space_empty(),
                    t.is_collect_nursery_empty(),
                    t.is_alloc_nursery_empty(),
                ]
                .iter()
                .map(|b| b.to_string()),
            ),
        )
}

/// One node of the history tree: the row without its links, first child, next sibling.
struct Node {
    body: Obj,
    kid: usize,
    sib: usize,
}

struct Tree {
    nodes: Vec<Option<Node>>, // index = line number - 1
    crashes: usize,
}

impl Tree {
    fn new() -> Self {
        let mut t = Tree { nodes: vec![], crashes: 0 };
        t.nodes.push(Some(Node { body: Obj::new("Root"), kid: 0, sib: 0 }));
        t
    }
    /// Append a node as the (new last) child of `parent`; `last_child` is the parent's previous
    /// last child (0 if none). Returns the new line number.
    fn add(&mut self, parent: usize, last_child: usize, body: Obj) -> usize {
        self.nodes.push(Some(Node { body, kid: 0, sib: 0 }));
        let line = self.nodes.len();
        if last_child == 0 {
            self.nodes[parent - 1].as_mut().unwrap().kid = line;
        } else {
            self.nodes[last_child - 1].as_mut().unwrap().sib = line;
        }
        line
    }
    fn write(&mut self, path: &str) -> usize {
        let tr = Trace::new();
        for n in self.nodes.iter_mut() {
            let n = n.take().unwrap();
            tr.push(n.body.int("kid", n.kid as i64).int("sib", n.sib as i64).finish());
        }
        tr.write_to(path).expect("write trace")
    }
}

/// Replay `path` on a fresh LOS (no logging).
fn replay(path: &[Op]) -> Los {
    let mut los = Los::new();
    for op in path {
        los.apply(*op);
    }
    los
}

/// Execute `op` after `path` on the real treadmill and log it under `parent`.
/// Returns the new line (and whether the call crashed).
fn step(
    tree: &mut Tree,
    path: &[Op],
    op: Op,
    parent: usize,
    last_child: usize,
) -> (usize, bool) {
    let p: Vec<Op> = path.to_vec();
    let res = catch(move || {
        let mut los = replay(&p);
        let call = los.apply(op);
        call.map(|c| row(&los, &c))
    });
    match res {
        Ok(Some(body)) => (tree.add(parent, last_child, body), false),
        Ok(None) => unreachable!("pruned no-op reached"),
        Err(msg) => {
            tree.crashes += 1;
            let body = Obj::new("Crash").str("op", &format!("{:?}", op)).str("msg", &msg);
            (tree.add(parent, last_child, body), true)
        }
    }
}

fn dfs(tree: &mut Tree, path: &mut Vec<Op>, parent: usize, depth: usize, nobj: usize, allids: bool, hist: &mut u64) {
    if depth == 0 {
        *hist += 1;
        return;
    }
    let ops = replay(path).enabled(nobj, allids);
    let mut last = 0;
    for op in ops {
        let (line, crashed) = step(tree, path, op, parent, last);
        last = line;
        if !crashed {
            path.push(op);
            dfs(tree, path, line, depth - 1, nobj, allids, hist);
            path.pop();
        } else {
            *hist += 1;
        }
    }
}

pub fn run() {
    let out = arg_or("out", "treadmill.ndjson");
    let depth = arg_u64("depth", 8) as usize;
    let nobj = arg_u64("nobj", 4) as usize;
    let nrandom = arg_u64("random", 20);
    let rlen = arg_u64("rlen", 300) as usize;
    let robj = arg_u64("robj", 8) as usize;
    // 1: allocation may pick any free object id (no symmetry reduction)
    let allids = arg_u64("allids", 0) == 1;
    // a panic inside the treadmill is data; keep the default hook quiet
    std::panic::set_hook(Box::new(|_| {}));
    let mut tree = Tree::new();
    let mut hist = 0u64;
    let mut path = vec![];
    dfs(&mut tree, &mut path, 1, depth, nobj, allids, &mut hist);
    let exhaustive_rows = tree.nodes.len() - 1;
    // random long histories: chains below the root
    let mut rng = Rng::new(seed_from_env());
    let mut last_root_child = {
        // last child of the root so far
        let mut c = tree.nodes[0].as_ref().unwrap().kid;
        while c != 0 && tree.nodes[c - 1].as_ref().unwrap().sib != 0 {
            c = tree.nodes[c - 1].as_ref().unwrap().sib;
        }
        c
    };
    for _ in 0..nrandom {
        let mut path: Vec<Op> = vec![];
        let mut parent = 1;
        let mut last = last_root_child;
        let mut first_line = 0;
        for _ in 0..rlen {
            let los = replay(&path);
            let ops = los.enabled(robj, true);
            // bias: do not end a GC too early, keep allocating
            let weights: Vec<u64> = ops
                .iter()
                .map(|op| match op {
                    Op::AllocNursery(_) => 6,
                    Op::AllocLive(_) => 3,
                    Op::Prepare(_) => 3,
                    Op::Trace(_) => 6,
                    Op::SweepNursery => 4,
                    Op::SweepMature => 1,
                })
                .collect();
            let total: u64 = weights.iter().sum();
            let mut x = rng.below(total);
            let mut pick = ops[0];
            for (op, w) in ops.iter().zip(weights.iter()) {
                if x < *w {
                    pick = *op;
                    break;
                }
                x -= *w;
            }
            let (line, crashed) = step(&mut tree, &path, pick, parent, last);
            if first_line == 0 {
                first_line = line;
            }
            if crashed {
                break;
            }
            path.push(pick);
            parent = line;
            last = 0;
        }
        if first_line != 0 {
            last_root_child = first_line;
        }
        hist += 1;
    }
    let crashes = tree.crashes;
    let n = tree.write(&out);
    println!(
        "SUMMARY {{\"rows\":{},\"exhaustive_rows\":{},\"depth\":{},\"nobj\":{},\"histories\":{},\"random\":{},\"rlen\":{},\"robj\":{},\"crashes\":{},\"allids\":{}}}",
        n, exhaustive_rows, depth, nobj, hist, nrandom, rlen, robj, crashes, allids
    );
}
