//! C37: run the real Compressor forwarding pipeline (hooks `mmtk::verif::compressor_hooks`) on a
//! 1 MiB region mapped by this driver, for many object layouts, and record what it computes.
//!
//! For one layout: clear the mark bits / offset vector of the used part of the region
//! (`CompressorSpace::prepare`), write each live object's size into its header word (the dummy
//! object model reads it back in `get_current_size`), mark every live object the way
//! `CompressorSpace::trace_mark_object` does (first-word bit by `test_and_mark`, last-word bit by
//! `mark_last_word_of_object`), run `calculate_offset_vector(region, cursor)` and ask `forward` for
//! every live object. Rows (all positions are word offsets from the region start):
//!   {"ev":"CF","src":"..","cursor":c,"objs":[[start,size],..],"fwd":[..],"nmarks":k,"remark":r}
//!   {"ev":"Crash","src":"..","cursor":c,"objs":[..],"msg":".."}   some call panicked
//! `nmarks` = number of set mark bits below the cursor (evidence only), `remark` = how many objects
//! were (re-)marked a second time (`test_and_mark` then fails and nothing else happens).
//! Preconditions respected by the generator: objects >= 2 words, disjoint, sorted, below the
//! cursor; the cursor is page aligned (RegionPageResource keeps it so) and within the region.
use crate::dummyvm::DummyVM;
use mmtk::util::{Address, ObjectReference};
use mmtk::verif::compressor_hooks as hk;
use vcommon::*;

const REGION: usize = 0x2000_0010_0000 & !(hk::REGION_BYTES - 1);
const WORD: usize = 8;
const PAGE_WORDS: usize = 4096 / WORD;
const REGION_WORDS: usize = hk::REGION_BYTES / WORD;
const BLOCK_WORDS: usize = hk::BLOCK_BYTES / WORD;

fn addr(word: usize) -> Address {
    unsafe { Address::from_usize(REGION + word * WORD) }
}
fn word_of(a: Address) -> i64 {
    let a = a.as_usize();
    // forwarding addresses must stay inside the region; anything else is reported as -1 - which
    // no specification value equals - together with the raw distance in the row
    if a >= REGION && a < REGION + hk::REGION_BYTES && (a - REGION) % WORD == 0 {
        ((a - REGION) / WORD) as i64
    } else {
        -1
    }
}

struct Ctx {
    trace: Trace,
    fm: hk::VerifForwarding<DummyVM>,
    rows: u64,
    crashes: u64,
    multi_block: u64,
    block_end: u64,
}

/// Run one layout. `order` = the order in which objects are marked (indices into objs);
/// `remark` = objects marked a second time.
fn layout(cx: &mut Ctx, src: &str, cursor_words: usize, objs: &[(usize, usize)], order: &[usize], remark: &[usize]) {
    debug_assert!(cursor_words % PAGE_WORDS == 0 && cursor_words <= REGION_WORDS);
    for (s, n) in objs {
        if (s + n) % BLOCK_WORDS == 0 {
            cx.block_end += 1;
        }
        if (s + n - 1) / BLOCK_WORDS >= s / BLOCK_WORDS + 2 {
            cx.multi_block += 1;
        }
    }
    let fm = &cx.fm;
    let objs_v = objs.to_vec();
    let order_v = order.to_vec();
    let remark_v = remark.to_vec();
    let res = catch(std::panic::AssertUnwindSafe(move || {
        hk::verif_clear(addr(0), cursor_words * WORD);
        fm.release();
        for (s, n) in objs_v.iter() {
            unsafe { addr(*s).store::<usize>(*n * WORD) };
        }
        let oref = |i: usize| ObjectReference::from_raw_address(addr(objs_v[i].0)).unwrap();
        for i in order_v.iter() {
            let newly = fm.mark_object(oref(*i));
            assert!(newly, "harness: first marking of an object must succeed");
        }
        for i in remark_v.iter() {
            fm.mark_object(oref(*i));
        }
        fm.calculate_offset_vector(addr(0), addr(cursor_words));
        let fwd: Vec<i64> = (0..objs_v.len()).map(|i| word_of(fm.forward(addr(objs_v[i].0)))).collect();
        let mut nmarks = 0i64;
        for w in 0..cursor_words {
            if hk::verif_mark_bit(addr(w)) != 0 {
                nmarks += 1;
            }
        }
        (fwd, nmarks)
    }));
    let objs_json = json_array(objs.iter().map(|(s, n)| json_ints([*s as i64, *n as i64])));
    let line = match res {
        Ok((fwd, nmarks)) => Obj::new("CF")
            .str("src", src)
            .int("cursor", cursor_words as i64)
            .json("objs", &objs_json)
            .ints("fwd", fwd)
            .int("nmarks", nmarks)
            .int("remark", remark.len() as i64)
            .finish(),
        Err(msg) => {
            cx.crashes += 1;
            Obj::new("Crash")
                .str("src", src)
                .int("cursor", cursor_words as i64)
                .json("objs", &objs_json)
                .str("msg", &msg)
                .finish()
        }
    };
    cx.trace.push(line);
    cx.rows += 1;
}

fn simple(cx: &mut Ctx, src: &str, cursor_words: usize, objs: &[(usize, usize)]) {
    let order: Vec<usize> = (0..objs.len()).collect();
    layout(cx, src, cursor_words, objs, &order, &[]);
}

/// All layouts (any number of objects >= 2 words, any gaps) inside the word window [lo, lo+n).
fn window(cx: &mut Ctx, src: &str, cursor_words: usize, lo: usize, n: usize) {
    fn rec(cx: &mut Ctx, src: &str, cursor: usize, hi: usize, from: usize, objs: &mut Vec<(usize, usize)>) {
        simple(cx, src, cursor, objs);
        let mut s = from;
        while s + 2 <= hi {
            for sz in 2..=(hi - s) {
                objs.push((s, sz));
                rec(cx, src, cursor, hi, s + sz, objs);
                objs.pop();
            }
            s += 1;
        }
    }
    let mut objs = vec![];
    rec(cx, src, cursor_words, lo + n, lo, &mut objs);
}

/// All layouts of 1..=kmax objects whose first and last words are drawn from `pos` (sorted).
fn boundary(cx: &mut Ctx, src: &str, cursor_words: usize, pos: &[usize], kmax: usize) {
    fn rec(cx: &mut Ctx, src: &str, cursor: usize, pos: &[usize], from: usize, kmax: usize, objs: &mut Vec<(usize, usize)>) {
        if !objs.is_empty() {
            simple(cx, src, cursor, objs);
        }
        if objs.len() == kmax {
            return;
        }
        for i in from..pos.len() {
            for j in (i + 1)..pos.len() {
                objs.push((pos[i], pos[j] - pos[i] + 1));
                rec(cx, src, cursor, pos, j + 1, kmax, objs);
                objs.pop();
            }
        }
    }
    let mut objs = vec![];
    rec(cx, src, cursor_words, pos, 0, kmax, &mut objs);
}

/// One random layout below `cursor_words`.
fn random_layout(rng: &mut Rng, cursor_words: usize, style: u64) -> Vec<(usize, usize)> {
    let mut objs = vec![];
    let mut p = if rng.chance(1, 2) { 0 } else { rng.below(20) as usize };
    loop {
        // gap
        let gap = match style {
            0 => rng.below(3) as usize,                       // dense
            1 => rng.range(0, 600) as usize,                  // sparse
            _ => if rng.chance(3, 4) { rng.below(4) as usize } else { rng.range(0, 300) as usize },
        };
        let mut s = p + gap;
        // size
        let mut n = match rng.below(10) {
            0..=5 => rng.range(2, 12) as usize,
            6..=7 => rng.range(2, 80) as usize,
            8 => rng.range(60, 700) as usize,                 // spans many blocks
            _ => rng.range(2, 3) as usize,
        };
        if style == 3 && rng.chance(1, 50) {
            n = rng.range(1000, 30000) as usize;              // huge object
        }
        // sometimes snap the start or the end to a block boundary
        match rng.below(if style == 0 { 24 } else { 12 }) {
            0 => s = (s + BLOCK_WORDS - 1) / BLOCK_WORDS * BLOCK_WORDS,
            1 => {
                let e = (s + n + BLOCK_WORDS - 1) / BLOCK_WORDS * BLOCK_WORDS;
                n = e - s;
            }
            2 => {
                // last word is the first word of a block
                let e = (s + n + BLOCK_WORDS - 1) / BLOCK_WORDS * BLOCK_WORDS + 1;
                n = e - s;
            }
            3 => {
                // first word is the last word of a block
                s = (s + BLOCK_WORDS) / BLOCK_WORDS * BLOCK_WORDS - 1;
            }
            _ => {}
        }
        if n < 2 {
            n = 2;
        }
        if s + n > cursor_words {
            // sometimes fill exactly up to the cursor
            if rng.chance(1, 3) && s + 2 <= cursor_words {
                objs.push((s, cursor_words - s));
            }
            break;
        }
        objs.push((s, n));
        p = s + n;
    }
    objs
}

pub fn run() {
    let out = arg_or("out", "compressor.ndjson");
    let win = arg_u64("window", 12) as usize;
    let kmax = arg_u64("kmax", 3) as usize;
    let nrandom = arg_u64("random", 300);
    let nbig = arg_u64("big", 3);
    // the public initialisation MMTK::new performs: register the VM's side metadata layout and
    // reserve the side metadata address range
    mmtk::util::metadata::side_metadata::initialize_side_metadata::<DummyVM>(
        &mmtk::util::options::Options::default(),
    );
    hk::verif_map_region(addr(0), hk::REGION_BYTES).expect("map region");
    // from here on a panic of the code under test is data (a Crash row)
    std::panic::set_hook(Box::new(|_| {}));
    let mut cx = Ctx {
        trace: Trace::new(),
        fm: hk::VerifForwarding::<DummyVM>::new(),
        rows: 0,
        crashes: 0,
        multi_block: 0,
        block_end: 0,
    };
    // (E1) every layout inside word windows: at the region start, across the first block
    // boundary, across the boundary of blocks 1/2 with the window ending on a block end, and
    // ending exactly at the cursor (= end of the first page)
    window(&mut cx, "win-start", PAGE_WORDS, 0, win);
    window(&mut cx, "win-block01", PAGE_WORDS, BLOCK_WORDS - win / 2, win);
    window(&mut cx, "win-block2end", 2 * PAGE_WORDS, 3 * BLOCK_WORDS - win, win);
    window(&mut cx, "win-cursor", PAGE_WORDS, PAGE_WORDS - win, win);
    let e1 = cx.rows;
    // (E2) every layout of <= kmax objects whose first/last words lie next to the boundaries of
    // the first three blocks (objects spanning 1, 2, 3 blocks, ending exactly on block ends,
    // starting on block starts, one-word overlaps into the neighbouring block)
    let b = BLOCK_WORDS;
    let pos: Vec<usize> = vec![
        0, 1, 2, b - 2, b - 1, b, b + 1, b + 2, 2 * b - 2, 2 * b - 1, 2 * b, 2 * b + 1, 2 * b + 2,
        3 * b - 2, 3 * b - 1, 3 * b, 3 * b + 1,
    ];
    boundary(&mut cx, "boundary3", PAGE_WORDS, &pos, kmax);
    let e2 = cx.rows - e1;
    // (R) random layouts
    let mut rng = Rng::new(seed_from_env());
    for i in 0..nrandom {
        let pages = match rng.below(6) {
            0 => 1,
            1 => 2,
            2 => rng.range(1, 8),
            3 => rng.range(1, 32),
            _ => rng.range(1, 16),
        } as usize;
        let style = rng.below(4);
        let cursor = pages * PAGE_WORDS;
        let objs = random_layout(&mut rng, cursor, style);
        // mark in a random order; re-mark a few
        let mut order: Vec<usize> = (0..objs.len()).collect();
        if i % 2 == 1 {
            for k in (1..order.len()).rev() {
                let j = rng.below(k as u64 + 1) as usize;
                order.swap(k, j);
            }
        }
        let remark: Vec<usize> = if objs.is_empty() || i % 3 != 0 {
            vec![]
        } else {
            (0..rng.range(1, 3)).map(|_| rng.below(objs.len() as u64) as usize).collect()
        };
        let src = ["rand-dense", "rand-sparse", "rand-mixed", "rand-huge"][style as usize];
        layout(&mut cx, src, cursor, &objs, &order, &remark);
    }
    // whole-region layouts (cursor = region end)
    for i in 0..nbig {
        let style = [1u64, 3, 0, 2][(i % 4) as usize];
        let objs = random_layout(&mut rng, REGION_WORDS, style);
        let src = ["big-dense", "big-sparse", "big-mixed", "big-huge"][style as usize];
        simple(&mut cx, src, REGION_WORDS, &objs);
    }
    let n = cx.trace.write_to(&out).expect("write trace");
    println!(
        "SUMMARY {{\"rows\":{},\"window_rows\":{},\"window\":{},\"boundary_rows\":{},\"kmax\":{},\"random\":{},\"big\":{},\"objs_spanning_3_blocks\":{},\"objs_ending_on_block_end\":{},\"crashes\":{}}}",
        n, e1, win, e2, kmax, nrandom, nbig, cx.multi_block, cx.block_end, cx.crashes
    );
}
