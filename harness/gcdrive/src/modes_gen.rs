//! Directed driver mode for C05 (generational remembered sets): `--mode gen`.
//!
//! Holders (Default, LOS, Immortal, NonMoving objects with reference fields) are made old by
//! surviving collections; fresh young objects (single objects and short chains) are stored into
//! their fields through the plan's object barrier by several mutators - one of which is destroyed
//! while its modbuf is not empty - and every other reference to them is dropped; arrays of
//! references are copied between objects with `memory_manager::memory_region_copy`; nursery
//! collections (user-triggered non-exhaustive ones and allocation-triggered ones) are interleaved
//! with full-heap collections.
//!
//! The mode only reports: `Write` carries the source's unlog bit before and after the write (read
//! through the public metadata API), `AllocObs` the unlog bit of a fresh object, `RegionCopy` the
//! copied ranges, `GenObs` (inside `resume_mutators`, after the walker's `GCEnd`) the unlog bit and
//! the space of every object reachable from the roots. Trace_GenRemset.tla judges.

use crate::prog::{reset, Params};
use crate::Driver;
use mmtk::memory_manager;
use mmtk::util::{Address, ObjectReference};
use mmtk::vm::ObjectModel;
use mmtk::BarrierSelector;
use shadowvm::*;
use std::sync::atomic::Ordering;
use vcommon::*;

const HOLDER_SLOTS: usize = 8; // per mutator 0 / 1
const TMP: usize = 16; // first temporary root slot
const TMP_MUT: usize = 2; // the mutator that gets bound and destroyed

fn oref(r: usize) -> ObjectReference {
    ObjectReference::from_raw_address(unsafe { Address::from_usize(r) }).unwrap()
}

/// The global unlog bit of an object, read through the public metadata API.
pub fn unlog_bit<const V: u32>(r: usize) -> i64 {
    <OM<V> as ObjectModel<ShadowVM<V>>>::GLOBAL_LOG_BIT_SPEC.load_atomic::<ShadowVM<V>, u8>(oref(r), None, Ordering::SeqCst)
        as i64
}

fn idof(r: usize) -> i64 {
    if r == 0 {
        0
    } else {
        (id_of_ref(r) & 0x7fff_ffff) as i64
    }
}

/// src.f[k] := val through mutator `m`'s barrier; the event carries the unlog bit of `src` before
/// and after.
pub fn gen_write<const V: u32>(d: &mut Driver<V>, m: usize, src: usize, k: usize, val: usize) {
    assert!(src != 0);
    let slot = unsafe { Address::from_usize(field_addr(src, k)) };
    let tgt_o = ObjectReference::from_raw_address(unsafe { Address::from_usize(val) });
    let mu = mutator::<V>(m);
    let old = load_word(field_addr(src, k));
    let ub = unlog_bit::<V>(src);
    match d.barrier {
        BarrierSelector::NoBarrier => store_word(field_addr(src, k), val),
        BarrierSelector::ObjectBarrier => {
            store_word(field_addr(src, k), val);
            memory_manager::object_reference_write_post::<ShadowVM<V>>(mu, oref(src), slot, tgt_o);
        }
        BarrierSelector::SATBBarrier => {
            memory_manager::object_reference_write_pre::<ShadowVM<V>>(mu, oref(src), slot, tgt_o);
            store_word(field_addr(src, k), val);
        }
    }
    let ua = unlog_bit::<V>(src);
    ev(Obj::new("Write")
        .int("m", m as i64)
        .int("src", idof(src))
        .int("k", k as i64 + 1)
        .int("tgt", idof(val))
        .int("old", idof(old))
        .int("ub", ub)
        .int("ua", ua)
        .json("sa", &proj(src)));
}

/// Allocate through `Driver::new_object` and report the fresh object's unlog bit.
#[allow(clippy::too_many_arguments)]
pub fn gen_alloc<const V: u32>(d: &mut Driver<V>, m: usize, slot: usize, sem: u64, size: usize, nf: usize) -> usize {
    let r = d.new_object(m, slot, sem, size, nf, 8, 0, KIND_PLAIN);
    if r != 0 {
        ev(Obj::new("AllocObs").int("id", idof(r)).int("ub", unlog_bit::<V>(r)));
    }
    r
}

/// dst.f[dk .. dk+n) := src.f[sk .. sk+n) with `memory_manager::memory_region_copy` (object
/// barrier: copy, then the post barrier; SATB: pre barrier, then the copy).
#[allow(clippy::too_many_arguments)]
pub fn region_copy<const V: u32>(d: &mut Driver<V>, m: usize, src: usize, sk: usize, dst: usize, dk: usize, n: usize) {
    let s0 = unsafe { Address::from_usize(field_addr(src, sk)) };
    let d0 = unsafe { Address::from_usize(field_addr(dst, dk)) };
    let sr = s0..(s0 + 8 * n);
    let dr = d0..(d0 + 8 * n);
    let mu = mutator::<V>(m);
    match d.barrier {
        BarrierSelector::SATBBarrier => {
            memory_manager::memory_region_copy_pre::<ShadowVM<V>>(mu, sr.clone(), dr.clone());
            unsafe { std::ptr::copy(s0.to_ptr::<usize>(), d0.to_mut_ptr::<usize>(), n) };
        }
        _ => memory_manager::memory_region_copy::<ShadowVM<V>>(mu, sr, dr),
    }
    ev(Obj::new("RegionCopy")
        .int("m", m as i64)
        .int("src", idof(src))
        .int("sk", sk as i64 + 1)
        .int("dst", idof(dst))
        .int("dk", dk as i64 + 1)
        .int("n", n as i64)
        .json("da", &proj(d0.as_usize())));
}

/// Runs inside `resume_mutators` after the walker's report: unlog bit and space of every object
/// reachable from the roots.
fn gen_obs<const V: u32>(epoch: u64) {
    let root_vals: Vec<usize> = with_world(|w| {
        let mut v = vec![];
        for rec in w.mutators.iter().filter(|r| r.ptr != 0) {
            v.extend(rec.roots.iter().copied().filter(|x| *x != 0));
        }
        v.extend(w.vm_roots.iter().copied().filter(|x| *x != 0));
        v
    });
    let w = walker::walk(&root_vals);
    let rows = json_array(w.nodes.iter().filter(|n| !n.bad).map(|n| {
        let sp = mmtk::verif::space_name_of_address(unsafe { Address::from_usize(start_of(n.r)) });
        format!("[{},{},{}]", n.id & 0x7fff_ffff, unlog_bit::<V>(n.r), if sp == "nursery" { 1 } else { 0 })
    }));
    ev(Obj::new("GenObs")
        .int("epoch", epoch as i64)
        .bool("nursery", mmtk::verif::is_nursery_gc(mmtk::<V>()))
        .json("objs", &rows));
}

struct Holder {
    m: usize,
    slot: usize,
    nf: usize,
}

fn holder_ref<const V: u32>(h: &Holder) -> usize {
    Driver::<V>::root_get(h.m, h.slot)
}

fn alloc_holder<const V: u32>(d: &mut Driver<V>, p: &Params, h: &mut Holder) {
    let sem = *d.rng.pick(&p.sems);
    let (size, nf) = match sem {
        2 => {
            let nf = d.rng.range(4, 24) as usize;
            (8 * d.rng.range(1024, 3000) as usize, nf) // 8..24 KB, page-sized: LOS
        }
        1 | 6 => {
            let nf = d.rng.range(2, 10) as usize;
            (HDR_BYTES + 8 * nf + 8 * d.rng.below(6) as usize, nf)
        }
        _ => {
            let nf = d.rng.range(2, 12) as usize;
            (HDR_BYTES + 8 * nf + 8 * d.rng.below(40) as usize, nf)
        }
    };
    let sem = if matches!(sem, 0 | 1 | 2 | 6) { sem } else { 0 };
    h.nf = nf;
    gen_alloc::<V>(d, h.m, h.slot, sem, size, nf);
}

/// Allocate garbage until a collection has happened (allocation-triggered GC).
fn fill_until_gc<const V: u32>(d: &mut Driver<V>, m: usize) {
    let before = GC_EPOCH.load(Ordering::Relaxed);
    let mut n = 0;
    while GC_EPOCH.load(Ordering::Relaxed) == before && n < 4000 {
        safepoint();
        let size = (8 * d.rng.range(1100, 1900) as usize).min(d.max_non_los - 8);
        d.new_object(m, TMP + 7, 0, size, 0, 8, 0, KIND_PLAIN);
        n += 1;
    }
    d.set_root(m, TMP + 7, 0);
}

pub fn gen_mode<const V: u32>(d: &mut Driver<V>, p: &Params, programs: u64, ops: u64) {
    *RESUME_HOOK.lock().unwrap() = Some(Box::new(|epoch| gen_obs::<V>(epoch)));
    for pi in 0..programs {
        gen_program::<V>(d, p, pi, ops);
    }
    *RESUME_HOOK.lock().unwrap() = None;
}

fn gen_program<const V: u32>(d: &mut Driver<V>, p: &Params, pi: u64, nops: u64) {
    if with_world(|w| w.mutators[TMP_MUT].ptr != 0) {
        destroy::<V>(TMP_MUT);
    }
    reset(pi);
    // everything allocated so far is dead; a full-heap collection empties every remembered set
    d.gc(0, true);
    let nmut = p.nmut.clamp(1, 2);
    let nhold = d.rng.range(3, (HOLDER_SLOTS * nmut) as u64) as usize;
    let mut holders: Vec<Holder> = (0..nhold).map(|i| Holder { m: i % nmut, slot: i / nmut, nf: 0 }).collect();
    for h in holders.iter_mut() {
        safepoint();
        alloc_holder::<V>(d, p, h);
    }
    // make them old: survive one or two collections
    match d.rng.below(3) {
        0 => d.gc(0, false),
        1 => {
            d.gc(0, false);
            d.gc(nmut - 1, false);
        }
        _ => d.gc(0, true),
    }
    for _ in 0..nops {
        safepoint();
        let wm = d.rng.below(nmut as u64) as usize; // the mutator whose barrier / buffers are used
        let am = d.rng.below(nmut as u64) as usize; // the mutator that allocates and owns temporaries
        let hi = d.rng.below(holders.len() as u64) as usize;
        let c = d.rng.below(100);
        if c < 34 {
            // store a fresh young object (or a short chain of them) into a holder, drop the rest
            let h = holder_ref::<V>(&holders[hi]);
            let k = d.rng.below(holders[hi].nf as u64) as usize;
            let big = d.rng.chance(1, 10);
            let nf = d.rng.range(1, 3) as usize;
            let size = if big { 8 * d.rng.range(1024, 2048) as usize } else { HDR_BYTES + 8 * nf + 8 * d.rng.below(20) as usize };
            let y = gen_alloc::<V>(d, am, TMP, if big { 2 } else { 0 }, size, nf);
            if y == 0 {
                continue;
            }
            let chain = d.rng.below(3);
            for _ in 0..chain {
                // young -> young: y2 is reachable only through the object that is stored below
                let sz2 = HDR_BYTES + 16 + 8 * d.rng.below(10) as usize;
                let y2 = gen_alloc::<V>(d, am, TMP + 1, 0, sz2, 2);
                if y2 == 0 {
                    break;
                }
                let top = Driver::<V>::root_get(am, TMP);
                let prev = load_word(field_addr(top, 0));
                gen_write::<V>(d, wm, y2, 0, prev);
                gen_write::<V>(d, wm, top, 0, y2);
                d.set_root(am, TMP + 1, 0);
            }
            let _ = h;
            let h = holder_ref::<V>(&holders[hi]); // (re-read: the allocations above may have moved it)
            let y = Driver::<V>::root_get(am, TMP);
            gen_write::<V>(d, wm, h, k, y);
            d.set_root(am, TMP, 0);
        } else if c < 44 {
            // overwrite with null or with another holder
            let h = holder_ref::<V>(&holders[hi]);
            let k = d.rng.below(holders[hi].nf as u64) as usize;
            let v = if d.rng.chance(1, 2) {
                0
            } else {
                let o = d.rng.below(holders.len() as u64) as usize;
                holder_ref::<V>(&holders[o])
            };
            gen_write::<V>(d, wm, h, k, v);
        } else if c < 52 {
            // load a field into a temporary root (a second path to a young object), or drop one
            let t = TMP + 2 + d.rng.below(3) as usize;
            if d.rng.chance(2, 3) {
                let k = d.rng.below(holders[hi].nf as u64) as usize;
                d.load_field(holders[hi].m, holders[hi].slot, k, am, t);
            } else {
                d.set_root(am, t, 0);
            }
        } else if c < 66 {
            // memory_region_copy
            let di = d.rng.below(holders.len() as u64) as usize;
            let dst = holder_ref::<V>(&holders[di]);
            let dnf = holders[di].nf;
            if d.rng.chance(1, 2) {
                // from a fresh young array full of fresh young objects into an (old) holder
                let n = d.rng.range(1, dnf.min(6) as u64) as usize;
                let a = gen_alloc::<V>(d, am, TMP + 5, 0, HDR_BYTES + 8 * n + 16, n);
                if a == 0 {
                    continue;
                }
                for j in 0..n {
                    let esz = HDR_BYTES + 8 + 8 * d.rng.below(8) as usize;
                    let e = gen_alloc::<V>(d, am, TMP + 6, 0, esz, 1);
                    if e == 0 {
                        break;
                    }
                    let a = Driver::<V>::root_get(am, TMP + 5);
                    gen_write::<V>(d, wm, a, j, e);
                }
                d.set_root(am, TMP + 6, 0);
                let a = Driver::<V>::root_get(am, TMP + 5);
                let dst = holder_ref::<V>(&holders[di]);
                let dk = d.rng.below((dnf - n + 1) as u64) as usize;
                region_copy::<V>(d, wm, a, 0, dst, dk, n);
                d.set_root(am, TMP + 5, 0);
            } else if d.rng.chance(1, 3) {
                // from a holder into a fresh young array, which is then stored into a holder
                let src = holder_ref::<V>(&holders[hi]);
                let _ = src;
                let snf = holders[hi].nf;
                let n = d.rng.range(1, snf.min(6) as u64) as usize;
                let a = gen_alloc::<V>(d, am, TMP + 5, 0, HDR_BYTES + 8 * n + 16, n);
                if a == 0 {
                    continue;
                }
                let src = holder_ref::<V>(&holders[hi]);
                let sk = d.rng.below((snf - n + 1) as u64) as usize;
                region_copy::<V>(d, wm, src, sk, a, 0, n);
                let dst = holder_ref::<V>(&holders[di]);
                let dk = d.rng.below(dnf as u64) as usize;
                gen_write::<V>(d, wm, dst, dk, a);
                d.set_root(am, TMP + 5, 0);
            } else if hi != di {
                // between two holders
                let src = holder_ref::<V>(&holders[hi]);
                let snf = holders[hi].nf;
                let n = d.rng.range(1, snf.min(dnf) as u64) as usize;
                let sk = d.rng.below((snf - n + 1) as u64) as usize;
                let dk = d.rng.below((dnf - n + 1) as u64) as usize;
                region_copy::<V>(d, wm, src, sk, dst, dk, n);
            }
        } else if c < 78 {
            d.gc(am, false); // user-triggered, not exhaustive: a nursery collection unless MMTk decides otherwise
        } else if c < 85 {
            fill_until_gc::<V>(d, am);
        } else if c < 89 {
            d.gc(am, true);
        } else if c < 95 {
            // a mutator that comes and goes: it stores young objects into (old) holders and is
            // destroyed while its modbuf / region modbuf are not empty (destroy_mutator flushes them)
            bind::<V>(TMP_MUT);
            let n = d.rng.range(1, 3);
            for _ in 0..n {
                let hj = d.rng.below(holders.len() as u64) as usize;
                let ysz = HDR_BYTES + 8 + 8 * d.rng.below(12) as usize;
                let y = gen_alloc::<V>(d, am, TMP, 0, ysz, 1);
                if y == 0 {
                    break;
                }
                let h = holder_ref::<V>(&holders[hj]);
                let k = d.rng.below(holders[hj].nf as u64) as usize;
                gen_write::<V>(d, TMP_MUT, h, k, y);
                d.set_root(am, TMP, 0);
            }
            if d.rng.chance(1, 2) && holders.len() >= 2 {
                let (si, di) = (hi, (hi + 1) % holders.len());
                let n = holders[si].nf.min(holders[di].nf).min(3);
                let (src, dst) = (holder_ref::<V>(&holders[si]), holder_ref::<V>(&holders[di]));
                region_copy::<V>(d, TMP_MUT, src, 0, dst, 0, n);
            }
            destroy::<V>(TMP_MUT);
        } else {
            // replace a holder by a fresh (young) one
            safepoint();
            alloc_holder::<V>(d, p, &mut holders[hi]);
        }
    }
    d.gc(0, false);
    fill_until_gc::<V>(d, 0);
    d.gc(0, true);
}
