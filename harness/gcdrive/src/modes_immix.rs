//! `--mode immixlines` (property C34): long histories of nursery / full / defragmenting collections
//! on a small heap with long-lived objects, reporting after EVERY collection (inside
//! `resume_mutators`, before any mutator runs) the Immix line state of every block that holds a
//! reachable object: line mark states of the space, block state byte, line mark bytes, reusable-pool
//! membership and the answers of the real hole search from every line. With `--midgc` the same
//! report is also taken in the middle of each collection (after the transitive closure, before
//! release), where `line_mark_state != line_unavail_state` in full-heap collections.
//! Nothing is judged here: `spec/immixlines/Trace_ImmixLines.tla` computes the live lines from the
//! reported object offsets/sizes and checks every report.

use crate::prog::{reset, Params};
use crate::Driver;
use mmtk::util::Address;
use mmtk::verif::immix_lines;
use shadowvm::*;
use std::collections::BTreeMap;
use std::sync::atomic::Ordering;
use vcommon::*;

const SCRATCH: usize = ROOTS_PER_MUTATOR - 1;
const MAX_TRACKED: usize = 24;
const PERMANENT: usize = 6;

fn all_root_values() -> Vec<usize> {
    with_world(|w| {
        let mut v = vec![];
        for rec in w.mutators.iter() {
            if rec.ptr == 0 {
                continue;
            }
            v.extend(rec.roots.iter().copied().filter(|x| *x != 0));
        }
        v.extend(w.vm_roots.iter().copied().filter(|x| *x != 0));
        v.extend(w.pin_roots.iter().copied().filter(|x| *x != 0));
        v.extend(w.tpin_roots.iter().copied().filter(|x| *x != 0));
        v
    })
}

fn spaces_json<const V: u32>() -> String {
    json_array(immix_lines::spaces(mmtk::<V>()).iter().map(|s| {
        Obj::raw("")
            .str("n", s.name)
            .int("cur", s.cur as i64)
            .int("un", s.unavail as i64)
            .bool("defrag", s.in_defrag)
            .bool("nm", s.never_move)
            .int("pool", s.pool.len() as i64)
            .finish()
    }))
}

struct Blk {
    info: immix_lines::BlockInfo,
    in_pool: bool,
    objs: Vec<(usize, usize, u64)>,
}

/// One report: walk the heap from the roots, group the reachable objects by Immix block.
fn report<const V: u32>(at: &str, epoch: u64) {
    let m = mmtk::<V>();
    let plan = arg_or("plan", "");
    let w = walker::walk(&all_root_values());
    let spaces = immix_lines::spaces(m);
    let (_, _, line_bytes, _, _, _) = immix_lines::constants();
    let mut blocks: BTreeMap<usize, Blk> = BTreeMap::new();
    let mut bad = 0i64;
    let mut other = 0i64;
    let mut nobj = 0i64;
    for n in w.nodes.iter() {
        if n.bad {
            bad += 1;
            continue;
        }
        let s = start_of(n.r);
        // already known block?
        let known = blocks
            .range(..=s)
            .next_back()
            .filter(|(b, blk)| s < **b + blk.info.marks.len() * line_bytes)
            .map(|(b, _)| *b);
        let key = match known {
            Some(b) => Some(b),
            None => match immix_lines::block_info(m, unsafe { Address::from_usize(s) }) {
                Some(info) => {
                    let b = info.start.as_usize();
                    let in_pool = spaces
                        .iter()
                        .any(|sp| sp.name == info.space && sp.pool.iter().any(|p| p.as_usize() == b));
                    blocks.insert(b, Blk { info, in_pool, objs: vec![] });
                    Some(b)
                }
                None => None,
            },
        };
        match key {
            Some(b) => {
                nobj += 1;
                blocks.get_mut(&b).unwrap().objs.push((s - b, n.size, n.id));
            }
            None => other += 1,
        }
    }
    let blocks_json = json_array(blocks.iter().map(|(b, blk)| {
        Obj::raw("")
            .str("sp", blk.info.space)
            .json("a", &proj(*b))
            .int("st", blk.info.state_byte as i64)
            .int("stb", blk.info.state_back as i64)
            .int("df", blk.info.defrag_byte as i64)
            .bool("pool", blk.in_pool)
            .ints("m", blk.info.marks.iter().map(|x| *x as i64))
            .ints("hs", blk.info.holes.iter().map(|h| h.map(|x| x.0 as i64).unwrap_or(-1)))
            .ints("he", blk.info.holes.iter().map(|h| h.map(|x| x.1 as i64).unwrap_or(-1)))
            .json(
                "objs",
                &json_array(
                    blk.objs.iter().map(|(off, sz, id)| format!("[{},{},{}]", off, sz, id & 0x7fff_ffff)),
                ),
            )
            .finish()
    }));
    ev(Obj::new("IxGC")
        .int("epoch", epoch as i64)
        .str("at", at)
        .str("plan", &plan)
        .bool("nursery", mmtk::verif::is_nursery_gc(m))
        .bool("conc", mmtk::verif::concurrent_work_in_progress(m))
        .bool("emergency", m.is_emergency_collection())
        .bool("user", m.is_user_triggered_collection())
        .json("spaces", &spaces_json::<V>())
        .int("nobj", nobj)
        .int("other", other)
        .int("bad", bad)
        .json("blocks", &blocks_json));
}

/// Block state byte conversions through the real `From` impls (all 256 bytes, all constructible states).
fn block_state_rows() {
    for b in 0..=255u8 {
        let (k, n, back) = immix_lines::block_state_of_byte(b);
        ev(Obj::new("BS").str("dir", "b2s").int("b", b as i64).int("k", k as i64).int("n", n as i64).int("back", back as i64));
    }
    for kind in 0..=3u8 {
        let ns: Vec<u8> = if kind == 3 { (0..=255u8).collect() } else { vec![0] };
        for n in ns {
            let (byte, k2, n2, reus) = immix_lines::block_state_to_byte(kind, n);
            ev(Obj::new("BS")
                .str("dir", "s2b")
                .int("k", kind as i64)
                .int("n", n as i64)
                .int("b", byte as i64)
                .int("k2", k2 as i64)
                .int("n2", n2 as i64)
                .bool("reus", reus));
        }
    }
}

/// Reference fields of a tracked object (NonMoving objects included: a young NonMoving object may
/// be the only referrer of a young object).
fn nfields_for(_sem: u64, size: usize) -> usize {
    ((size - HDR_BYTES) / 8).min(2)
}

fn pick_tracked_size(rng: &mut Rng, cap: usize) -> usize {
    let c = rng.below(100);
    let words = if c < 35 {
        rng.range(3, 32)
    } else if c < 65 {
        rng.range(32, 256)
    } else if c < 90 {
        rng.range(256, 1000)
    } else {
        rng.range(1000, 2040)
    };
    ((words as usize) * 8).min(cap)
}

pub fn immixlines<const V: u32>(d: &mut Driver<V>, p: &Params, heap_mb: usize) {
    let m = mmtk::<V>();
    crate::QUIET_ALLOC.store(true, Ordering::Relaxed);
    WALK_AT_RESUME.store(false, Ordering::Relaxed);
    let target = arg_u64("gcs", 300);
    let tracked = (arg_u64("tracked", 16) as usize).clamp(PERMANENT + 1, MAX_TRACKED);
    // scheduler / page-resource events of other properties are not part of this trace
    mmtk::verif::remove_sink();
    let (reset_state, max_state, line_bytes, lines, scan_mark, block_only) = immix_lines::constants();
    ev(Obj::new("IxInit")
        .str("plan", &arg_or("plan", ""))
        .int("reset", reset_state as i64)
        .int("max", max_state as i64)
        .int("lineBytes", line_bytes as i64)
        .int("lines", lines as i64)
        .bool("scanMark", scan_mark)
        .bool("blockOnly", block_only)
        .json("spaces", &spaces_json::<V>()));
    block_state_rows();
    *RESUME_HOOK.lock().unwrap() = Some(Box::new(|epoch| report::<V>("end", epoch)));
    if flag("midgc") {
        *MIDGC_HOOK.lock().unwrap() = Some(Box::new(|epoch| report::<V>("mid", epoch)));
    }
    reset(0);
    let mut sems: Vec<u64> = p.sems.iter().copied().filter(|s| *s == 0 || *s == 6).collect();
    if sems.is_empty() {
        sems.push(0);
    }
    let cap = d.max_non_los - 8;
    let nmut = p.nmut.clamp(1, MAX_MUTATORS);
    let heap = heap_mb << 20;
    // long-lived objects: never dropped; sizes around the line size so that they straddle lines
    let perm_sizes = [24usize, 248, 264, 520, 1032, 6000];
    for (i, sz) in perm_sizes.iter().enumerate().take(PERMANENT) {
        safepoint();
        let sem = sems[i % sems.len()];
        let size = (*sz).min(cap);
        d.new_object(0, i, sem, size, nfields_for(sem, size), 8, 0, KIND_PLAIN);
    }
    let mut round = 0u64;
    while GC_EPOCH.load(Ordering::Relaxed) < target {
        round += 1;
        // 1. mutate the tracked set
        for mu in 0..nmut {
            let first = if mu == 0 { PERMANENT } else { 0 };
            for slot in first..tracked {
                safepoint();
                let c = d.rng.below(100);
                if c < 30 {
                    let old = Driver::<V>::root_get(mu, slot);
                    let sem = *d.rng.pick(&sems);
                    let size = pick_tracked_size(&mut d.rng, cap);
                    // the old occupant may stay reachable through the new object's field
                    let keep_old = old != 0 && d.rng.chance(1, 4);
                    // hold the old occupant in the scratch slot while the new object is allocated
                    Driver::<V>::root_set(mu, SCRATCH, if keep_old { old } else { 0 });
                    let nf = nfields_for(sem, size);
                    let r = d.new_object(mu, slot, sem, size, nf, 8, 0, KIND_PLAIN);
                    if r != 0 && keep_old && nf > 0 {
                        let kept = Driver::<V>::root_get(mu, SCRATCH);
                        d.write_field(mu, slot, 0, kept);
                    }
                    if r != 0 && nf > 1 && d.rng.chance(1, 3) {
                        // second field: some other tracked object of any mutator
                        let om = d.rng.below(nmut as u64) as usize;
                        let os = d.rng.below(tracked as u64) as usize;
                        let v = Driver::<V>::root_get(om, os);
                        d.write_field(mu, slot, 1, v);
                    }
                    Driver::<V>::root_set(mu, SCRATCH, 0);
                } else if c < 38 {
                    Driver::<V>::root_set(mu, slot, 0);
                }
            }
        }
        // 2. churn: short-lived allocation, sometimes enough to trigger collections by itself
        let budget = match d.rng.below(8) {
            0 => 0,
            1 | 2 => 64 << 10,
            3 | 4 => heap / 8,
            5 | 6 => heap / 3,
            _ => heap * 2 / 3,
        };
        let mut allocated = 0usize;
        let mut fails = 0;
        while allocated < budget && GC_EPOCH.load(Ordering::Relaxed) < target {
            safepoint();
            let mu = d.rng.below(nmut as u64) as usize;
            let size = if d.rng.chance(1, 40) { 8 * d.rng.range(128, 1500) as usize } else { 8 * d.rng.range(3, 96) as usize };
            let sem = if d.rng.chance(1, 6) { *d.rng.pick(&sems) } else { 0 };
            let r = d.new_object(mu, SCRATCH, sem, size.min(cap), 0, 8, 0, KIND_PLAIN);
            if r == 0 {
                fails += 1;
                if fails > 3 {
                    break;
                }
            }
            allocated += size;
        }
        for mu in 0..nmut {
            Driver::<V>::root_set(mu, SCRATCH, 0);
        }
        // 3. forced collections of both kinds
        let c = d.rng.below(100);
        if c < 40 {
            d.gc(0, true);
        } else if c < 65 {
            d.gc(0, false);
        }
        if round % 64 == 0 {
            ev(Obj::new("IxRound").int("round", round as i64).int("epoch", GC_EPOCH.load(Ordering::Relaxed) as i64));
        }
    }
    // let a concurrent collection finish (reports continue to be taken at every pause)
    let mut spins = 0;
    while (mmtk::verif::concurrent_work_in_progress(m) || m.gc_in_progress()) && spins < 20000 {
        safepoint();
        mmtk::memory_manager::gc_poll(m, mutator_tls(0));
        std::thread::sleep(std::time::Duration::from_micros(200));
        spins += 1;
    }
    *RESUME_HOOK.lock().unwrap() = None;
    *MIDGC_HOOK.lock().unwrap() = None;
    ev(Obj::new("IxEnd").int("rounds", round as i64).int("epochs", GC_EPOCH.load(Ordering::Relaxed) as i64));
}
