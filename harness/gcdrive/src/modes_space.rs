//! Driver modes of the "space" family.
//! * `--mode layout` (C24): boot the plan and log every side-metadata spec each space uses, the
//!   core spec chains, the VM declaration and the reserved side-metadata range.
//! * `--mode lookup` (C31): allocate, collect, then query address-to-space resolution for a grid of
//!   addresses. A panic inside a query is data (`"panic"` in the row), not a driver failure.
//! Nothing here judges: the rows carry what the real code answered.

use crate::prog::{reset, Params};
use crate::Driver;
use mmtk::memory_manager;
use mmtk::util::metadata::side_metadata::SideMetadataSpec;
use mmtk::util::{Address, ObjectReference};
use shadowvm::*;
use std::cell::{Cell, RefCell};
use vcommon::*;

/// Wide number: [value div 2^20, value mod 2^20] (TLC integers are 32-bit).
fn wide(x: usize) -> String {
    format!("[{},{}]", x >> 20, x & 0xf_ffff)
}

fn spec_json(s: &SideMetadataSpec) -> String {
    Obj::raw("")
        .str("n", s.name)
        .bool("g", s.is_global)
        .uint("oh", (s.offset >> 20) as u64)
        .uint("ol", (s.offset & 0xf_ffff) as u64)
        .uint("lb", s.log_num_of_bits as u64)
        .uint("lr", s.log_bytes_in_region as u64)
        .finish()
}

fn features() -> String {
    let mut f: Vec<&str> = vec![];
    for (on, name) in [
        (cfg!(feature = "vo_bit"), "vo_bit"),
        (cfg!(feature = "object_pinning"), "object_pinning"),
        (cfg!(feature = "immortal_as_nonmoving"), "immortal_as_nonmoving"),
        (cfg!(feature = "marksweep_as_nonmoving"), "marksweep_as_nonmoving"),
        (cfg!(feature = "immix_non_moving"), "immix_non_moving"),
        (cfg!(feature = "sticky_immix_non_moving_nursery"), "sticky_immix_non_moving_nursery"),
        (cfg!(feature = "immix_smaller_block"), "immix_smaller_block"),
        (cfg!(feature = "malloc_mark_sweep"), "malloc_mark_sweep"),
        (cfg!(feature = "extreme_assertions"), "extreme_assertions"),
    ] {
        if on {
            f.push(name);
        }
    }
    f.join("+")
}

/// C24: one `Layout` event describing the configuration's side metadata.
pub fn layout<const V: u32>(plan: &str) {
    let m = mmtk::<V>();
    let (core_g, core_l, vm_gbase, vm_lbase) = mmtk::verif::verif_core_side_specs();
    let (res_base, res_bytes) = mmtk::verif::verif_side_metadata_reservation();
    let (hs, he, lse, contig, las, max_spaces) = mmtk::verif::verif_vm_layout();
    let p = placement(V);
    // the VM declaration as this binding made it: placement table order (the binding is the declarer)
    let vm = mmtk::verif::verif_vm_metadata_specs::<ShadowVM<V>>();
    let order: Vec<&str> = side_order(p)
        .iter()
        .filter(|m| **m != 0 && (**m != M_PIN || cfg!(feature = "object_pinning")))
        .map(|m| match *m {
            M_FWD => "fwdbits",
            M_MARK => "mark",
            M_PIN => "pin",
            _ => "losmark",
        })
        .collect();
    let vm_json = json_array(vm.iter().map(|(n, side, hoff, nbits)| {
        let mut o = Obj::raw("").str("n", n).bool("side", side.is_some()).int("bits", *nbits as i64);
        match side {
            Some(s) => o = o.json("s", &spec_json(s)),
            None => o = o.int("hdrBit", *hoff as i64),
        }
        o.finish()
    }));
    let spaces = json_array(mmtk::verif::verif_space_table(m).iter().map(|s| {
        // data addresses the space may hand out: its contiguous range, or (no range of its own:
        // malloc space, discontiguous space) anything in the address space / the heap range
        let (lo, hi) = if s.has_common && s.contiguous {
            (s.start, s.start + s.extent)
        } else if s.has_common {
            (hs, he)
        } else {
            (0, 1usize << 47)
        };
        Obj::raw("")
            .str("n", s.name)
            .bool("common", s.has_common)
            .bool("contig", s.contiguous)
            .json("lo", &wide(lo))
            .json("hi", &wide(hi))
            .json("g", &json_array(s.global_specs.iter().map(spec_json)))
            .json("l", &json_array(s.local_specs.iter().map(spec_json)))
            .finish()
    }));
    ev(Obj::new("Layout")
        .str("plan", plan)
        .int("variant", V as i64)
        .int("placement", p as i64)
        .str("features", &features())
        .int("logArch", 47)
        .int("logAddressSpace", las as i64)
        .int("logSpaceExtent", lse as i64)
        .bool("contigLayout", contig)
        .int("maxSpaces", max_spaces as i64)
        .json("heapStart", &wide(hs))
        .json("heapEnd", &wide(he))
        .json("resBase", &wide(res_base))
        .json("resBytes", &wide(res_bytes))
        .json("coreG", &json_array(core_g.iter().map(spec_json)))
        .json("coreL", &json_array(core_l.iter().map(spec_json)))
        .json("vmGBase", &wide(vm_gbase))
        .json("vmLBase", &wide(vm_lbase))
        .json("vm", &vm_json)
        .strs("vmLocalOrder", order)
        .json("spaces", &spaces));
}

// ------------------------------------------------------------------------------------------------
// C28: allocation churn. Objects of a few sizes are kept in a ring of root slots, so that the heap
// fills up and collections are triggered by allocation (Space::acquire: reserve, poll, clear the
// request, block for GC) rather than requested by the driver.
// ------------------------------------------------------------------------------------------------
pub fn churn<const V: u32>(d: &mut Driver<V>, p: &Params, heap_mb: usize, is_nogc: bool) {
    let rounds = arg_u64("rounds", 3);
    for round in 0..rounds {
        reset(5000 + round);
        // many heaps' worth of allocation per round, at most half a heap live at any time
        let ring = p.nslots.max(4);
        let unit = (heap_mb << 20) / (2 * ring);
        let n = if is_nogc { 2 * ring as u64 } else { arg_u64("churn", 40) * ring as u64 };
        for i in 0..n {
            safepoint();
            let (sem, size) = match d.rng.below(4) {
                0 => (2, unit.max(16384) & !7),
                1 => (0, (unit / 2).clamp(1024, 30000) & !7),
                2 => (0, (unit / 8).clamp(256, 8192) & !7),
                _ => (0, 32 + 8 * d.rng.below(64) as usize),
            };
            let sem = if p.sems.contains(&sem) { sem } else { 0 };
            d.new_object(0, (i as usize) % ring, sem, size, 1, 8, 0, KIND_PLAIN);
        }
        if !is_nogc {
            d.gc(0, true);
        }
    }
}

/// Multi-chunk regions (C28 / C02): large objects of 1..7 MB - a request above 4 MB makes the large
/// object space take a region of several contiguous chunks - are allocated into a small ring of
/// roots, so that regions are carved into several grants, partly released by the next collection and
/// reused while other grants of the same region are still live. In discontiguous (Map32) layouts
/// whole free chunks go back to the global pool.
pub fn bigchunks<const V: u32>(d: &mut Driver<V>, _p: &Params, heap_mb: usize) {
    let rounds = arg_u64("rounds", 3);
    const MB: usize = 1 << 20;
    let ring = 5usize;
    for round in 0..rounds {
        reset(5500 + round);
        let steps = arg_u64("steps", 24);
        let mut since_gc = 0;
        for i in 0..steps {
            safepoint();
            // directed prefix (a region carved into grants, its head released first), then random
            let mbs = match (round % 2, i) {
                (0, 0) => 6,
                (0, 1) => 2,
                (0, 3) => 4,
                (0, 4) => 2,
                (0, 6) => 4,
                (0, 7) => 1,
                _ => 1 + d.rng.below(7) as usize,
            };
            let live: usize = (0..ring).map(|s| {
                let r = Driver::<V>::root_get(0, s);
                if r == 0 { 0 } else { hdr_of_ref(r).size }
            }).sum();
            let slot = if round % 2 == 0 && i < 8 {
                [0usize, 1, 0, 0, 2, 0, 3, 4][i as usize]
            } else {
                d.rng.below(ring as u64) as usize
            };
            if round % 2 == 0 && (i == 2 || i == 5) {
                // drop the head grant of the region, keep the later ones, and collect
                d.set_root(0, 0, 0);
                d.gc(0, true);
                since_gc = 0;
                continue;
            }
            if live + mbs * MB > heap_mb * MB / 2 {
                d.set_root(0, slot, 0);
                d.gc(0, true);
                since_gc = 0;
                continue;
            }
            let size = mbs * MB - if d.rng.chance(1, 2) { 0 } else { 8 * d.rng.below(4096) as usize };
            d.new_object(0, slot, 2, size, 2, 8, 0, KIND_PLAIN);
            since_gc += 1;
            if since_gc >= 3 && d.rng.chance(1, 2) {
                let drop = d.rng.below(ring as u64) as usize;
                d.set_root(0, drop, 0);
                let ex = d.rng.chance(1, 2);
                d.gc(0, ex);
                since_gc = 0;
            }
        }
        d.gc(0, true);
    }
}

// ------------------------------------------------------------------------------------------------
// C31
// ------------------------------------------------------------------------------------------------

thread_local! {
    static QUIET_PANIC: Cell<bool> = const { Cell::new(false) };
    static LAST_PANIC: RefCell<String> = const { RefCell::new(String::new()) };
}

/// While a query runs, a panic of the code under test is recorded instead of ending the process.
fn install_query_panic_hook() {
    let prev = std::panic::take_hook();
    std::panic::set_hook(Box::new(move |info| {
        if QUIET_PANIC.with(|q| q.get()) {
            let msg = if let Some(s) = info.payload().downcast_ref::<&str>() {
                s.to_string()
            } else if let Some(s) = info.payload().downcast_ref::<String>() {
                s.clone()
            } else {
                "panic".to_string()
            };
            let loc = info.location().map(|l| format!("{}:{}", l.file(), l.line())).unwrap_or_default();
            LAST_PANIC.with(|p| *p.borrow_mut() = format!("{} @ {}", msg.chars().take(160).collect::<String>(), loc));
        } else {
            prev(info);
        }
    }));
}

fn query<R>(f: impl FnOnce() -> R) -> Result<R, String> {
    QUIET_PANIC.with(|q| q.set(true));
    let r = std::panic::catch_unwind(std::panic::AssertUnwindSafe(f));
    QUIET_PANIC.with(|q| q.set(false));
    r.map_err(|_| LAST_PANIC.with(|p| p.borrow().clone()))
}

/// Address as three limbs [a >> 44, (a >> 22) & (2^22-1), a & (2^22-1)].
fn limbs(a: usize) -> String {
    format!("[{},{},{}]", a >> 44, (a >> 22) & 0x3f_ffff, a & 0x3f_ffff)
}

fn tri(r: &Result<bool, String>) -> &'static str {
    match r {
        Ok(true) => "t",
        Ok(false) => "f",
        Err(_) => "panic",
    }
}

fn lookup_row(why: &str, a: usize) {
    let addr = unsafe { Address::from_usize(a) };
    let sft = query(|| mmtk::verif::space_name_of_address(addr));
    let inm = query(|| match ObjectReference::from_raw_address(addr) {
        Some(o) => memory_manager::is_in_mmtk_spaces(o),
        None => false,
    });
    let mapped = query(|| memory_manager::is_mapped_address(addr));
    let desc = query(|| mmtk::verif::verif_vm_map_descriptor(addr));
    let mut msgs: Vec<String> = vec![];
    for e in [sft.as_ref().err(), inm.as_ref().err(), mapped.as_ref().err(), desc.as_ref().err()].into_iter().flatten() {
        msgs.push(e.clone());
    }
    ev(Obj::new("Lookup")
        .str("why", why)
        .json("a", &limbs(a))
        .str("hex", &format!("{:x}", a))
        .str("sft", match &sft {
            Ok(n) => n,
            Err(_) => "panic",
        })
        .str("in", tri(&inm))
        .str("mapped", tri(&mapped))
        .str("desc", &match &desc {
            Ok(d) => format!("{:x}", d),
            Err(_) => "panic".to_string(),
        })
        .str("msg", &msgs.join(" | ")));
}

/// The space table and layout constants the lookups are judged against (reported, not interpreted).
pub fn spaces_event<const V: u32>(plan: &str) {
    let m = mmtk::<V>();
    let (hs, he, lse, contig, las, max_spaces) = mmtk::verif::verif_vm_layout();
    let (res_base, res_bytes) = mmtk::verif::verif_side_metadata_reservation();
    let spaces = json_array(mmtk::verif::verif_space_table(m).iter().map(|s| {
        Obj::raw("")
            .str("n", s.name)
            .bool("common", s.has_common)
            .bool("contig", s.contiguous)
            .json("start", &limbs(s.start))
            .json("end", &limbs(s.start + s.extent))
            .str("desc", &format!("{:x}", s.descriptor))
            .bool("descContig", s.desc_contiguous)
            .int("descIndex", s.desc_index as i64)
            .json("descStart", &limbs(s.desc_start))
            .json("descEnd", &limbs(s.desc_start + s.desc_extent))
            .finish()
    }));
    ev(Obj::new("Spaces")
        .str("plan", plan)
        .int("variant", V as i64)
        .str("features", &features())
        .str("sftMap", mmtk::verif::verif_sft_map_kind())
        .bool("contigLayout", contig)
        .int("logSpaceExtent", lse as i64)
        .int("logAddressSpace", las as i64)
        .int("maxSpaces", max_spaces as i64)
        .json("heapStart", &limbs(hs))
        .json("heapEnd", &limbs(he))
        .json("resBase", &limbs(res_base))
        .json("resEnd", &limbs(res_base + res_bytes))
        .json("spaces", &spaces));
}

/// Granted ranges seen so far: the driver reads back its own trace (written through to the file).
fn grants_so_far(out: &str) -> Vec<(usize, usize)> {
    TRACE.flush();
    let mut v = vec![];
    let Ok(text) = std::fs::read_to_string(out) else { return v };
    for line in text.lines() {
        if !line.starts_with("{\"ev\":\"PRAcquire\"") {
            continue;
        }
        let num = |key: &str| -> usize {
            let k = format!("\"{}\":", key);
            line.find(&k)
                .map(|i| {
                    line[i + k.len()..].chars().take_while(|c| c.is_ascii_digit()).collect::<String>().parse().unwrap_or(0)
                })
                .unwrap_or(0)
        };
        let start = (num("c") << 22) + (num("p") << 12) + num("o");
        v.push((start, num("n") << 12));
    }
    v
}

pub fn lookup<const V: u32>(d: &mut Driver<V>, p: &Params, plan: &str, out: &str, is_nogc: bool) {
    install_query_panic_hook();
    let m = mmtk::<V>();
    let _ = plan;
    // --- populate: objects of every semantics, a collection, more objects, drop half, collect ---
    let mut sems: Vec<u64> = p.sems.clone();
    sems.sort();
    sems.dedup();
    let rounds = arg_u64("rounds", 2);
    for round in 0..rounds {
        reset(4000 + round);
        let mut slot = 0usize;
        for &sem in &sems {
            let sizes: &[usize] = match sem {
                2 => &[16384, 65536, 300000],
                6 => &[32, 512, 4096],
                1 | 3 | 4 | 5 => &[32, 1024, 4096],
                _ => &[24, 256, 4096, 20000],
            };
            for &sz in sizes {
                for _ in 0..(1 + d.rng.below(3)) {
                    safepoint();
                    d.new_object(0, slot % p.nslots, sem, sz, if sz >= 32 { 1 } else { 0 }, 8, 0, KIND_PLAIN);
                    slot += 1;
                }
            }
        }
        // a burst of short-lived default objects (spills into several blocks / chunks)
        for _ in 0..(200 + d.rng.below(400)) {
            safepoint();
            let sz = 8 * d.rng.range(3, 600) as usize;
            d.new_object(0, p.nslots - 1, 0, sz, 0, 8, 0, KIND_PLAIN);
        }
        // a large object spanning chunks of its own: dropped below, so that a discontiguous space
        // gives whole chunks back (chunk maps must not keep resolving them to the space)
        if sems.contains(&2) && !is_nogc && !flag("nohuge") {
            safepoint();
            d.new_object(0, 0, 2, 6 << 20, 0, 8, 0, KIND_PLAIN);
        }
        // drop every second root, collect
        for i in (0..p.nslots).step_by(2) {
            d.set_root(0, i, 0);
        }
        if !is_nogc {
            d.gc(0, true);
        }
        probe_all::<V>(d, out, round);
    }
    let _ = m;
}

fn probe_all<const V: u32>(d: &mut Driver<V>, out: &str, round: u64) {
    let m = mmtk::<V>();
    let (hs, he, lse, contig, _las, max_spaces) = mmtk::verif::verif_vm_layout();
    let (res_base, res_bytes) = mmtk::verif::verif_side_metadata_reservation();
    ev(Obj::new("LookupStart").int("round", round as i64));
    let mut n = 0u64;
    let mut q = |why: &str, a: usize| {
        let a = a & !7;
        lookup_row(why, a);
        n += 1;
    };
    let around = |q: &mut dyn FnMut(&str, usize), why: &str, a: usize| {
        q(&format!("{}-8", why), a.wrapping_sub(8));
        q(why, a);
        q(&format!("{}+8", why), a.wrapping_add(8));
    };
    // fixed addresses
    q("low", 8);
    q("low", 4096);
    around(&mut q, "heapStart", hs);
    around(&mut q, "heapEnd", he);
    around(&mut q, "resBase", res_base);
    around(&mut q, "resEnd", res_base + res_bytes);
    q("resMid", res_base + res_bytes / 2);
    around(&mut q, "2^47", 1usize << 47);
    around(&mut q, "2^46", 1usize << 46);
    q("max", usize::MAX & !7);
    q("max", (usize::MAX & !7) - 8);
    around(&mut q, "2^63", 1usize << 63);
    let stack_var = 0usize;
    q("stack", &stack_var as *const usize as usize);
    static STATIC_VAR: usize = 0;
    q("static", &STATIC_VAR as *const usize as usize);
    let boxed = Box::new([0usize; 4]);
    q("malloc", boxed.as_ptr() as usize);
    // every multiple of the space extent (space-map slots), below and above the heap range
    for k in 0..=(2 * max_spaces + 1) {
        if let Some(a) = k.checked_shl(lse as u32) {
            around(&mut q, "slot", a);
            q("slotMid", a.wrapping_add(1usize << (lse - 1)));
        }
    }
    // the space table
    for s in mmtk::verif::verif_space_table(m).iter().filter(|s| s.has_common && s.contiguous) {
        around(&mut q, "spaceStart", s.start);
        around(&mut q, "spaceEnd", s.start + s.extent);
        q("spaceMid", s.start + s.extent / 2);
        if contig {
            // the end of the space's slot
            let slot_end = ((s.start >> lse) + 1) << lse;
            around(&mut q, "slotEnd", slot_end);
        }
    }
    // granted ranges seen so far
    let grants = grants_so_far(out);
    let step = (grants.len() / 300).max(1);
    for (i, (start, bytes)) in grants.iter().enumerate() {
        if i % step != 0 && i + 8 < grants.len() {
            continue;
        }
        around(&mut q, "grantStart", *start);
        around(&mut q, "grantEnd", start + bytes);
        q("grantMid", start + bytes / 2);
        // the chunk edges around the grant
        around(&mut q, "grantChunk", start & !0x3f_ffff);
        around(&mut q, "grantChunkEnd", (start + bytes + 0x3f_ffff) & !0x3f_ffff);
    }
    // rooted objects
    for i in 0..ROOTS_PER_MUTATOR {
        let r = Driver::<V>::root_get(0, i);
        if r != 0 {
            let s = start_of(r);
            q("objStart", s);
            q("objEnd", s + hdr_of_ref(r).size - 8);
        }
    }
    // random addresses: anywhere below 2^47, inside the heap range, anywhere at all
    for _ in 0..arg_u64("random", 150) {
        q("rand47", (d.rng.next() as usize) & ((1usize << 47) - 1));
        q("randHeap", hs + (d.rng.next() as usize) % (he - hs));
        q("rand64", d.rng.next() as usize);
    }
    // chunk-map layouts: a stride over the chunks of the heap range
    if !contig {
        let chunks = (he - hs) >> 22;
        let stride = (chunks / 400).max(1);
        let mut c = 0;
        while c < chunks {
            q("chunk", hs + (c << 22));
            q("chunkEnd", hs + (c << 22) + 0x3f_fff8);
            c += stride;
        }
    }
    drop(boxed);
    ev(Obj::new("LookupEnd").int("round", round as i64).int("rows", n as i64));
}
