//! C06: soft / weak / phantom references and finalizers (`--mode refs`).
//!
//! Seeded random programs that create reference objects of the three strengths (objects of kind
//! KIND_REF whose field 0 is the referent, never scanned) and finalizable objects, register them
//! with MMTk, keep / drop referents and the reference objects themselves, run user-requested
//! (nursery / full) and allocation-triggered collections in small heaps, provoke emergency
//! collections (soft referents larger than the heap), pop finalized objects at random times
//! (often several collections after they became ready) and occasionally call
//! get_all_finalizers / get_finalizers_for. The driver only acts and logs; Trace_RefProc.tla judges.
//!
//! Generator constraints (preconditions of the API, not expectations):
//! * a reference object is registered right after its referent is stored (no safepoint between);
//! * the referent of a phantom reference is never loaded;
//! * reference objects are never allocated in never-collected spaces;
//! * every program starts with an unjudged clean-up (drain the finalizer lists, full collection
//!   with no roots) so that MMTk's tables and the model both start empty.

use crate::prog::{reset, Params};
use crate::Driver;
use mmtk::memory_manager;
use mmtk::util::{Address, ObjectReference};
use mmtk::BarrierSelector;
use shadowvm::*;
use std::collections::HashMap;
use vcommon::*;

const SOFT: u64 = 0;
const WEAK: u64 = 1;
const PHANTOM: u64 = 2;

fn oref(r: usize) -> ObjectReference {
    ObjectReference::from_raw_address(unsafe { Address::from_usize(r) }).unwrap()
}
fn id31(r: usize) -> i64 {
    if r == 0 {
        0
    } else {
        (id_of_ref(r) & 0x7fff_ffff) as i64
    }
}

struct Refs<const V: u32> {
    /// strength of every reference object created in this program, by id (generation only)
    strength: HashMap<i64, u64>,
    heap_bytes: usize,
    satb: bool,
    /// --concpop: hand out finalizable objects also while concurrent marking is in progress
    concpop: bool,
    pressure_done: bool,
}

impl<const V: u32> Refs<V> {
    /// ref(root a of mutator m).referent := val, then (re-)register the reference object.
    fn set_referent_and_register(&mut self, r: usize, val: usize, kind: u64) {
        store_word(field_addr(r, 0), val);
        ev(Obj::new("SetReferent").int("ref", id31(r)).int("tgt", id31(val)));
        let m = mmtk::<V>();
        match kind {
            SOFT => memory_manager::add_soft_candidate(m, oref(r)),
            WEAK => memory_manager::add_weak_candidate(m, oref(r)),
            _ => memory_manager::add_phantom_candidate(m, oref(r)),
        }
        ev(Obj::new("AddCandidate").int("kind", kind as i64).int("ref", id31(r)));
    }

    fn new_ref(&mut self, d: &mut Driver<V>, p: &Params, m: usize, slot: usize, kind: u64, nf: usize, tm: usize, tslot: usize) -> usize {
        // reference objects live in collected spaces only
        let sems: Vec<u64> = p.sems.iter().copied().filter(|s| matches!(s, 0 | 6)).collect();
        let sem = if sems.is_empty() { 0 } else { *d.rng.pick(&sems) };
        let size = HDR_BYTES + 8 * nf + 8 * d.rng.below(6) as usize;
        let r = d.new_object(m, slot, sem, size, nf, 8, 0, KIND_REF);
        if r == 0 {
            return 0;
        }
        self.strength.insert(id31(r), kind);
        // the referent is read after the allocation (which may have collected and moved it)
        let val = if tslot == usize::MAX { 0 } else { Driver::<V>::root_get(tm, tslot) };
        let val = if val == r { 0 } else { val };
        self.set_referent_and_register(r, val, kind);
        r
    }

    fn get_referent(&mut self, m: usize, a: usize, mc: usize, c: usize) {
        let r = Driver::<V>::root_get(m, a);
        let v = load_word(field_addr(r, 0));
        if v != 0 && self.satb {
            mmtk::verif::load_weak_reference(mutator::<V>(m), oref(v));
        }
        Driver::<V>::root_set(mc, c, v);
        ev(Obj::new("GetReferent").int("ref", id31(r)).int("slot", Driver::<V>::slot_name(mc, c)).int("id", id31(v)));
    }

    fn add_finalizer(&mut self, r: usize) {
        memory_manager::add_finalizer(mmtk::<V>(), oref(r));
        ev(Obj::new("AddFinalizer").int("id", id31(r)));
    }

    /// Recorded defect (KNOWN_FINDINGS.json, C06): under ConcurrentImmix the finalizer lists are not
    /// part of the snapshot, an object handed out by get_finalized_object / get_all_finalizers /
    /// get_finalizers_for while concurrent marking is in progress is reclaimed by the final-mark
    /// pause although the VM holds it. Ordinary runs do not call these functions inside that
    /// window; the probe run (--concpop) does.
    fn handout_allowed(&self) -> bool {
        !self.satb || self.concpop || !mmtk::verif::concurrent_work_in_progress(mmtk::<V>())
    }

    /// Returns false when nothing was ready.
    fn pop(&mut self, d: &mut Driver<V>, m: usize, slot: Option<usize>) -> bool {
        if !self.handout_allowed() {
            return false;
        }
        match memory_manager::get_finalized_object(mmtk::<V>()) {
            Some(o) => {
                let r = o.to_raw_address().as_usize();
                let name = match slot {
                    Some(s) => {
                        Driver::<V>::root_set(m, s, r);
                        Driver::<V>::slot_name(m, s)
                    }
                    None => -1,
                };
                let _ = d;
                ev(Obj::new("PopFinalized").int("id", id31(r)).int("slot", name));
                true
            }
            None => {
                ev(Obj::new("PopFinalized").int("id", 0).int("slot", -1));
                false
            }
        }
    }

    fn get_all(&mut self, d: &mut Driver<V>, m: usize, nslots: usize) {
        if !self.handout_allowed() {
            return;
        }
        let v = memory_manager::get_all_finalizers(mmtk::<V>());
        ev(Obj::new("GetAllFinalizers").ints("ids", v.iter().map(|o| id31(o.to_raw_address().as_usize()))));
        // keep some of the returned objects (rooted before the next safepoint)
        for o in v.iter() {
            if d.rng.chance(1, 3) {
                let s = d.rng.below(nslots as u64) as usize;
                d.set_root(m, s, o.to_raw_address().as_usize());
            }
        }
    }

    fn get_for(&mut self, d: &mut Driver<V>, m: usize, r: usize) {
        if !self.handout_allowed() {
            return;
        }
        let v = memory_manager::get_finalizers_for(mmtk::<V>(), oref(r));
        let _ = (d, m);
        ev(Obj::new("GetFinalizersFor")
            .int("id", id31(r))
            .ints("ids", v.iter().map(|o| id31(o.to_raw_address().as_usize()))));
    }

    fn wait_concurrent(&self) {
        if !self.satb {
            return;
        }
        let m = mmtk::<V>();
        let mut spins = 0;
        while (mmtk::verif::concurrent_work_in_progress(m) || m.gc_in_progress()) && spins < 20000 {
            safepoint();
            memory_manager::gc_poll(m, mutator_tls(0));
            std::thread::sleep(std::time::Duration::from_micros(200));
            spins += 1;
        }
    }

    /// Unjudged clean-up between programs: afterwards MMTk holds no reference, no finalizer.
    fn cleanup(&mut self, d: &mut Driver<V>) {
        ev(Obj::new("RefCleanup"));
        let v = memory_manager::get_all_finalizers(mmtk::<V>());
        ev(Obj::new("GetAllFinalizers").ints("ids", v.iter().map(|o| id31(o.to_raw_address().as_usize()))));
        drop(v);
        d.gc(0, true);
        if self.satb {
            // a request during concurrent marking is answered by the final-mark pause, which keeps
            // everything that was reachable at the snapshot: ask again for a full pause
            self.wait_concurrent();
            d.gc(0, true);
        }
        ev(Obj::new("RefCleanupEnd"));
    }

    /// Soft referents larger than the heap: the collector must clear them (emergency collection)
    /// before it reports out-of-memory.
    fn pressure(&mut self, d: &mut Driver<V>, m: usize, nslots: usize) {
        let a = d.rng.below(nslots as u64) as usize;
        let b = (a + 1) % nslots;
        let c = (a + 2) % nslots;
        let big = (self.heap_bytes / 7) & !7;
        d.set_root(m, b, 0);
        for _ in 0..16 {
            safepoint();
            // big object in slot a
            let r = d.new_object(m, a, 0, big, 1, 8, 0, KIND_PLAIN);
            if r == 0 {
                break;
            }
            // soft reference in slot c, chained strongly to the previous one (kept in slot b)
            let s = d.new_object(m, c, 0, HDR_BYTES + 16, 2, 8, 0, KIND_REF);
            if s == 0 {
                break;
            }
            self.strength.insert(id31(s), SOFT);
            let big_now = Driver::<V>::root_get(m, a);
            self.set_referent_and_register(s, big_now, SOFT);
            let prev = Driver::<V>::root_get(m, b);
            if prev != 0 {
                d.write_field(m, c, 1, prev);
            }
            d.set_root(m, b, s);
            d.set_root(m, a, 0);
            d.set_root(m, c, 0);
            if mmtk::<V>().is_emergency_collection() {
                break;
            }
        }
    }
}

fn pick_small(rng: &mut Rng) -> usize {
    let c = rng.below(100);
    let words = if c < 70 {
        rng.range(3, 24)
    } else if c < 95 {
        rng.range(24, 300)
    } else {
        rng.range(300, 2500)
    };
    words as usize * 8
}

pub fn refs_mode<const V: u32>(d: &mut Driver<V>, p: &Params, programs: u64, nops: u64, heap_mb: usize) {
    let mut st = Refs::<V> {
        strength: HashMap::new(),
        heap_bytes: heap_mb << 20,
        satb: d.barrier == BarrierSelector::SATBBarrier,
        concpop: flag("concpop"),
        pressure_done: false,
    };
    let nmut = p.nmut.max(1);
    let ns = p.nslots;
    for pi in 0..programs {
        reset(5000 + pi);
        st.strength.clear();
        st.pressure_done = false;
        st.cleanup(d);
        // program flavour: how often collections and pops happen
        let gc_w = 3 + d.rng.below(8);
        let pop_w = 2 + d.rng.below(8);
        let want_pressure = d.rng.chance(1, 3);
        for opi in 0..nops {
            safepoint();
            let m = d.rng.below(nmut as u64) as usize;
            let nonnull: Vec<usize> = (0..ns).filter(|i| Driver::<V>::root_get(m, *i) != 0).collect();
            let refslots: Vec<usize> = nonnull
                .iter()
                .copied()
                .filter(|i| hdr_of_ref(Driver::<V>::root_get(m, *i)).kind == KIND_REF)
                .collect();
            let c = d.rng.below(100 + gc_w + pop_w);
            if c < 20 || nonnull.is_empty() {
                // new plain object
                let slot = d.rng.below(ns as u64) as usize;
                let sem = *d.rng.pick(&p.sems);
                let mut size = pick_small(&mut d.rng);
                if matches!(sem, 1 | 3 | 4 | 5 | 6) {
                    size = size.min(2048);
                }
                if sem == 2 {
                    size = size.max(8192);
                }
                let maxnf = ((size - HDR_BYTES) / 8).min(3);
                let nf = d.rng.below(maxnf as u64 + 1) as usize;
                d.new_object(m, slot, sem, size, nf, 8, 0, KIND_PLAIN);
            } else if c < 34 {
                // new reference object, registered at once
                let slot = d.rng.below(ns as u64) as usize;
                let kind = d.rng.below(3);
                let nf = 1 + d.rng.below(3) as usize;
                let tm = d.rng.below(nmut as u64) as usize;
                let tslot = if d.rng.chance(1, 12) { usize::MAX } else { d.rng.below(ns as u64) as usize };
                st.new_ref(d, p, m, slot, kind, nf, tm, tslot);
            } else if c < 38 {
                // re-target an existing reference object (and register it again)
                if refslots.is_empty() {
                    continue;
                }
                let a = *d.rng.pick(&refslots);
                let r = Driver::<V>::root_get(m, a);
                let kind = *st.strength.get(&id31(r)).unwrap_or(&WEAK);
                let tm = d.rng.below(nmut as u64) as usize;
                let val = Driver::<V>::root_get(tm, d.rng.below(ns as u64) as usize);
                if val == r || val == 0 {
                    continue;
                }
                st.set_referent_and_register(r, val, kind);
            } else if c < 45 {
                // load a referent (never a phantom's)
                let cands: Vec<usize> = refslots
                    .iter()
                    .copied()
                    .filter(|i| *st.strength.get(&id31(Driver::<V>::root_get(m, *i))).unwrap_or(&PHANTOM) != PHANTOM)
                    .collect();
                if cands.is_empty() {
                    continue;
                }
                let a = *d.rng.pick(&cands);
                let mc = d.rng.below(nmut as u64) as usize;
                let cs = d.rng.below(ns as u64) as usize;
                st.get_referent(m, a, mc, cs);
            } else if c < 58 {
                // write a strong field (field 0 of a reference object is the referent: skipped)
                let a = *d.rng.pick(&nonnull);
                let src = Driver::<V>::root_get(m, a);
                let h = hdr_of_ref(src);
                let first = if h.kind == KIND_REF { 1 } else { 0 };
                if h.nfields <= first {
                    continue;
                }
                let k = first + d.rng.below((h.nfields - first) as u64) as usize;
                let tm = d.rng.below(nmut as u64) as usize;
                let val = if d.rng.chance(1, 8) { 0 } else { Driver::<V>::root_get(tm, d.rng.below(ns as u64) as usize) };
                d.write_field(m, a, k, val);
            } else if c < 63 {
                // load a strong field
                let a = *d.rng.pick(&nonnull);
                let src = Driver::<V>::root_get(m, a);
                let h = hdr_of_ref(src);
                let first = if h.kind == KIND_REF { 1 } else { 0 };
                if h.nfields <= first {
                    continue;
                }
                let k = first + d.rng.below((h.nfields - first) as u64) as usize;
                let mc = d.rng.below(nmut as u64) as usize;
                let cs = d.rng.below(ns as u64) as usize;
                d.load_field(m, a, k, mc, cs);
            } else if c < 80 {
                // drop / copy a root
                let slot = d.rng.below(ns as u64) as usize;
                if d.rng.chance(3, 4) {
                    d.set_root(m, slot, 0);
                } else {
                    let v = Driver::<V>::root_get(m, *d.rng.pick(&nonnull));
                    let tm = d.rng.below(nmut as u64) as usize;
                    d.set_root(tm, slot, v);
                }
            } else if c < 88 {
                // register a finalizer (sometimes twice for the same object)
                let r = Driver::<V>::root_get(m, *d.rng.pick(&nonnull));
                st.add_finalizer(r);
                if d.rng.chance(1, 6) {
                    st.add_finalizer(r);
                }
            } else if c < 90 {
                if d.rng.chance(1, 3) && !(st.satb && mmtk::verif::concurrent_work_in_progress(mmtk::<V>())) {
                    // directed: deregister a registered object that has survived a collection while a
                    // newer candidate is waiting for its first collection (the tables are compacted
                    // under the processor's scan position), then collect without asking for a
                    // full-heap collection
                    let s1 = d.rng.below(ns as u64) as usize;
                    let s2 = (s1 + 1 + d.rng.below(ns as u64 - 1) as usize) % ns;
                    let a = d.new_object(m, s1, 0, 64, 0, 8, 0, KIND_PLAIN);
                    if a == 0 {
                        continue;
                    }
                    st.add_finalizer(a);
                    d.gc(m, false);
                    safepoint();
                    let fresh = d.new_object(m, s2, 0, 48, 0, 8, 0, KIND_PLAIN);
                    if fresh != 0 {
                        st.add_finalizer(fresh);
                        d.set_root(m, s2, 0);
                    }
                    let a_now = Driver::<V>::root_get(m, s1);
                    st.get_for(d, m, a_now);
                    d.gc(m, false);
                    continue;
                }
                let r = Driver::<V>::root_get(m, *d.rng.pick(&nonnull));
                st.get_for(d, m, r);
            } else if c < 91 {
                st.get_all(d, m, ns);
            } else if c < 96 {
                // burst of short-lived allocations: allocation-triggered collections
                // (the objects are never rooted at a safepoint and nobody judges their placement:
                // their allocation events are not logged)
                let n = d.rng.range(20, 200);
                let slot = d.rng.below(ns as u64) as usize;
                d.set_root(m, slot, 0);
                crate::QUIET_ALLOC.store(true, std::sync::atomic::Ordering::Relaxed);
                for _ in 0..n {
                    safepoint();
                    let size = 8 * d.rng.range(64, 4000) as usize;
                    d.new_object(m, slot, 0, size, 0, 8, 0, KIND_PLAIN);
                    Driver::<V>::root_set(m, slot, 0);
                    if st.satb && mmtk::verif::concurrent_work_in_progress(mmtk::<V>()) {
                        break;
                    }
                }
                crate::QUIET_ALLOC.store(false, std::sync::atomic::Ordering::Relaxed);
                if st.satb && mmtk::verif::concurrent_work_in_progress(mmtk::<V>()) {
                    // concurrent marking has just started: pop ready objects and load a weak
                    // referent inside the marking window (before the next safepoint)
                    ev(Obj::new("ConcurrentWindow"));
                    for _ in 0..d.rng.below(4) {
                        let ps = Some(d.rng.below(ns as u64) as usize);
                        if !st.pop(d, m, ps) {
                            break;
                        }
                    }
                    let cands: Vec<usize> = (0..ns)
                        .filter(|i| {
                            let r = Driver::<V>::root_get(m, *i);
                            r != 0
                                && hdr_of_ref(r).kind == KIND_REF
                                && *st.strength.get(&id31(r)).unwrap_or(&PHANTOM) != PHANTOM
                        })
                        .collect();
                    if !cands.is_empty() && d.rng.chance(1, 2) {
                        let a = *d.rng.pick(&cands);
                        let cs = d.rng.below(ns as u64) as usize;
                        st.get_referent(m, a, m, cs);
                    }
                }
            } else if c < 100 {
                if want_pressure && !st.pressure_done && opi > nops / 3 {
                    st.pressure_done = true;
                    st.pressure(d, m, ns);
                }
            } else if c < 100 + gc_w {
                let ex = d.rng.chance(1, 2);
                if st.satb && d.rng.chance(1, 2) {
                    st.wait_concurrent();
                }
                d.gc(m, ex);
            } else {
                // pop finalized objects: one, a few, or until none is left
                let mode = d.rng.below(4);
                let n = match mode {
                    0 => 1,
                    1 => 2,
                    2 => 3,
                    _ => 64,
                };
                for _ in 0..n {
                    let slot = if d.rng.chance(1, 6) { None } else { Some(d.rng.below(ns as u64) as usize) };
                    if !st.pop(d, m, slot) {
                        break;
                    }
                }
            }
        }
        // final judged collections: everything popped so far gets walked
        st.wait_concurrent();
        d.gc(0, true);
        for _ in 0..3 {
            let slot = Some(d.rng.below(ns as u64) as usize);
            if !st.pop(d, 0, slot) {
                break;
            }
        }
        d.gc(0, true);
    }
}
