//! Directed driver modes: allocation argument grid (C03), allocate-drop-collect cycles (C09),
//! valid-object / interior-pointer probes (C08).

use crate::prog::{reset, Params};
use crate::Driver;
use mmtk::memory_manager;
#[cfg(feature = "vo_bit")]
use mmtk::util::Address;
use shadowvm::*;
use vcommon::*;

/// C03: every legal (size, align, offset, semantics) combination of a boundary-oriented grid.
pub fn alloc_grid<const V: u32>(d: &mut Driver<V>, p: &Params, pass: u64) {
    reset(1000 + pass);
    ev(Obj::new("GridStart").int("pass", pass as i64));
    let max_align: usize = if V & 2 != 0 { 4096 } else { 64 };
    let mut sizes: Vec<usize> = vec![
        24, 32, 40, 48, 64, 120, 128, 136, 248, 256, 264, 504, 512, 520, 1016, 1024, 2040, 2048, 2056, 4088,
        4096, 4104, 8184, 8192, 8200, 16376, 16384, 16392, 32760, 32768, 32776, 65528, 65536, 65544,
        131072, 262136, 262144,
    ];
    if pass == 1 {
        // second pass: fewer sizes, shifted by one word, on the used heap
        sizes = sizes.iter().step_by(2).map(|s| s + 8).collect();
    }
    let mut sems: Vec<u64> = p.sems.clone();
    sems.sort();
    sems.dedup();
    let mut n = 0u64;
    for sem in sems {
        for &size in &sizes {
            // never-collected / non-moving spaces: keep the total small
            if matches!(sem, 1 | 3 | 4 | 5) && size > 32776 {
                continue;
            }
            // the non-moving space is an ImmixSpace: objects up to half a (possibly small) block
            if sem == 6 && size > 4096 {
                continue;
            }
            if sem == 2 && size < 64 {
                continue;
            }
            let mut align = 8;
            while align <= max_align {
                let mut offs = vec![0usize, 8, align / 2, align - 8];
                offs.sort();
                offs.dedup();
                for off in offs {
                    if off >= align && !(align == 8 && off == 0) {
                        continue;
                    }
                    if off % 8 != 0 {
                        continue;
                    }
                    // Recorded defect (KNOWN_FINDINGS.json, C35/C03): MarkSweep has no size class for
                    // a Default request whose padded size exceeds the largest cell. Only the probe
                    // run (--padprobe) issues such requests.
                    let padded_over = sem == 0 && size < d.max_non_los && size + align - 8 > d.max_non_los;
                    if padded_over && arg_or("plan", "") == "MarkSweep" && !flag("padprobe") {
                        continue;
                    }
                    safepoint();
                    let maxnf = ((size - HDR_BYTES) / 8).min(2);
                    d.new_object(0, (n % 4) as usize, sem, size, maxnf, align, off, KIND_PLAIN);
                    n += 1;
                }
                align *= 2;
            }
        }
    }
    // Size-class boundaries (segregated free lists: 8 one-word steps, then four steps per power of
    // two): a request of exactly a cell size, and one word less, for the Default semantics. Two
    // objects of each size are allocated back to back and filled, so a cell shorter than the
    // request shows as an overlap.
    if pass == 0 && p.sems.contains(&0) {
        let mut words: Vec<usize> = (4..=8).collect();
        let mut base = 8usize;
        while base < 8192 {
            for j in 1..=4 {
                words.push(base + base * j / 4);
            }
            base *= 2;
        }
        for w in words {
            for size in [w * 8 - 8, w * 8] {
                if size < 32 || size >= d.max_non_los {
                    continue;
                }
                for _ in 0..2 {
                    safepoint();
                    d.new_object(0, (n % 4) as usize, 0, size, 1, 8, 0, KIND_PLAIN);
                    n += 1;
                }
            }
        }
    }
    ev(Obj::new("GridEnd").int("pass", pass as i64).int("calls", n as i64));
}

/// C09: allocate up to a fraction of the heap, drop everything, collect exhaustively; repeat.
pub fn cycles<const V: u32>(d: &mut Driver<V>, p: &Params, ncycles: u64, heap_mb: usize) {
    let m = mmtk::<V>();
    if !flag("loud") {
        crate::QUIET_ALLOC.store(true, std::sync::atomic::Ordering::Relaxed);
        WALK_AT_RESUME.store(false, std::sync::atomic::Ordering::Relaxed);
    }
    let page_per_object = arg_or("plan", "") == "PageProtect";
    // MarkCompact reserves max(one word, VM::MAX_ALIGNMENT) bytes in front of every object: the
    // budget of a cycle counts what an object really occupies
    let per_object_overhead =
        if arg_or("plan", "") == "MarkCompact" { if V & 2 != 0 { 4096 } else { 64 } } else { 0 };
    let one_survivor = flag("survivor");
    for c in 0..ncycles {
        reset(2000 + c);
        if one_survivor && c > 0 {
            // keep one object alive across all cycles (exercises mark-state wrap-around)
        }
        // Every allocated object stays reachable until the drop (a chain through field 0 hanging
        // off root 0), so collections in the middle of a cycle have survivors of every size class.
        let eighths = if c % 2 == 0 { 2 } else { 3 }; // 1/4 or 3/8 of the heap live at the peak
        let budget = heap_mb * (1 << 20) * eighths / 8;
        let mix = c % 8;
        // single-size cycles rotate through representative sizes of the size-class structures
        const SINGLE: [usize; 10] = [64, 4096, 60000, 1024, 16384, 256, 8184, 32760, 65528, 24];
        let single = SINGLE[((c / 8) % SINGLE.len() as u64) as usize];
        let mid_gc = d.rng.chance(2, 3) && !flag("nomidgc");
        // the collection with survivors happens half-way or after the last allocation of the cycle
        let gc_at = if d.rng.chance(1, 2) { budget / 2 } else { budget };
        let mut allocated = 0usize;
        let mut failed = 0u64;
        let mut count = 0u64;
        let mut mid_done = false;
        if flag("tryfirst") {
            // short-lived objects worth more than a heap: the collections of this cycle are
            // triggered by allocation, i.e. non-blocking requests are refused when one is due
            let mut churned = 0usize;
            while churned < heap_mb * (1 << 20) * 5 / 4 {
                safepoint();
                let size = if d.rng.chance(1, 40) { 8 * d.rng.range(2000, 20000) as usize } else { 8 * d.rng.range(8, 600) as usize };
                let sem = if size >= 8192 && p.sems.contains(&2) { 2 } else { 0 };
                if d.new_object(0, 3, sem, size, 0, 8, 0, KIND_PLAIN) == 0 {
                    break;
                }
                Driver::<V>::root_set(0, 3, 0);
                churned += if page_per_object { size.max(4096) } else { size };
            }
        }
        while allocated < budget {
            safepoint();
            let size = match mix {
                // every object of a cycle has one reference field: at least 32 bytes
                0 => 32 + 8 * d.rng.below(16) as usize,
                1 => 8 * d.rng.range(4, 600) as usize,
                2 => {
                    if d.rng.chance(1, 50) {
                        8 * d.rng.range(2000, 30000) as usize
                    } else {
                        8 * d.rng.range(4, 100) as usize
                    }
                }
                3 => 8 * d.rng.range(1000, 12000) as usize,
                _ => single.max(32),
            };
            let sem = *d.rng.pick(&p.sems);
            let sem = if matches!(sem, 1 | 3 | 4 | 5) { 0 } else { sem }; // never-collected spaces cannot be reclaimed
            let sem = if sem == 6 && size > 4096 { 0 } else { sem }; // non-moving space: small objects only
            let sem = if sem == 2 && size < 8192 { 0 } else { sem }; // a page per small object would fill the heap
            let r = d.new_object(0, 1, sem, size, 1, 8, 0, KIND_PLAIN);
            if r == 0 {
                failed += 1;
                if failed > 3 {
                    break;
                }
                continue;
            }
            // the chain head is read after the allocation: the allocation may have collected
            let prev = Driver::<V>::root_get(0, 0);
            if prev != 0 {
                Driver::<V>::root_set(0, 2, prev);
                d.write_field(0, 1, 0, prev);
                Driver::<V>::root_set(0, 2, 0);
            }
            Driver::<V>::root_set(0, 0, r);
            Driver::<V>::root_set(0, 1, 0);
            allocated += if page_per_object { size.max(4096) } else { size + per_object_overhead };
            count += 1;
            if mid_gc && !mid_done && allocated >= gc_at {
                // a collection while everything is still live
                mid_done = true;
                d.gc(0, c % 3 == 0);
            }
        }
        reset(3000 + c);
        d.gc(0, true);
        if mmtk::verif::is_nursery_gc(m) {
            d.gc(0, true);
        }
        if d.barrier == mmtk::BarrierSelector::SATBBarrier {
            // a concurrent collection reclaims memory in its final pause: let it finish
            for round in 0..3 {
                let mut spins = 0;
                while (mmtk::verif::concurrent_work_in_progress(m) || m.gc_in_progress()) && spins < 100000 {
                    safepoint();
                    memory_manager::gc_poll(m, mutator_tls(0));
                    std::thread::sleep(std::time::Duration::from_micros(200));
                    spins += 1;
                }
                ev(Obj::new("ConcurrentWait").int("round", round).int("spins", spins));
                if round < 2 {
                    d.gc(0, true);
                }
            }
        }
        ev(Obj::new("CycleEnd")
            .int("cycle", c as i64)
            .int("objects", count as i64)
            .int("allocKB", (allocated >> 10) as i64)
            .int("failed", failed as i64)
            .int("usedPages", (memory_manager::used_bytes(m) >> 12) as i64)
            .int("oomSeen", OOM_SEEN.load(std::sync::atomic::Ordering::SeqCst) as i64)
            .json(
                "spaces",
                &json_array(mmtk::verif::space_page_counters(m).iter().map(|(n, r, c)| {
                    Obj::raw("").str("n", n).int("r", (*r).min(1 << 30) as i64).int("c", (*c).min(1 << 30) as i64).finish()
                })),
            ));
    }
}

/// C08: is_mmtk_object / find_object_from_internal_pointer probes around the rooted objects and at
/// addresses outside the heap. Reports only.
#[cfg(feature = "vo_bit")]
pub fn probes<const V: u32>(d: &mut Driver<V>, p: &Params) {
    let heap_lo = memory_manager::starting_heap_address().as_usize();
    let heap_hi = memory_manager::last_heap_address().as_usize();
    let mut rows: Vec<String> = vec![];
    let mut probe = |addr: usize, n: usize, rows: &mut Vec<String>| {
        let a = unsafe { Address::from_usize(addr) };
        let is_obj = catch(std::panic::AssertUnwindSafe(|| memory_manager::is_mmtk_object(a)));
        let fip = catch(std::panic::AssertUnwindSafe(|| memory_manager::find_object_from_internal_pointer(a, n)));
        let f = |r: Result<Option<mmtk::util::ObjectReference>, String>| -> String {
            match r {
                Ok(Some(o)) => proj(o.to_raw_address().as_usize()),
                Ok(None) => "[0,0]".to_string(),
                Err(_) => "[-1,-1]".to_string(),
            }
        };
        rows.push(format!(
            "{{\"p\":{},\"n\":{},\"out\":{},\"obj\":{},\"fip\":{}}}",
            proj(addr),
            n.min(1 << 30),
            !(heap_lo <= addr && addr < heap_hi),
            f(is_obj),
            f(fip)
        ));
    };
    for m in 0..MAX_MUTATORS {
        let bound = with_world(|w| w.mutators[m].ptr != 0);
        if !bound {
            continue;
        }
        for i in 0..p.nslots {
            let r = Driver::<V>::root_get(m, i);
            if r == 0 || d.rng.chance(1, 2) {
                continue;
            }
            let h = hdr_of_ref(r);
            let s = start_of(r);
            let end = s + h.size;
            let mid = (s + h.size / 2) & !7;
            for (addr, n) in [
                (r, 8usize),
                (r, h.size),
                (s, h.size),
                (r + 8, 8),
                (r + 8, 16),
                (r + 8, h.size),
                (mid, (mid - r).saturating_sub(8).max(8)),
                (mid, mid - r + 8),
                (mid, 1 << 20),
                (end - 8, h.size),
                (end - 8, 8),
            ] {
                if addr >= s && addr < end {
                    probe(addr, n, &mut rows);
                }
            }
        }
    }
    let stack_var = 0usize;
    for addr in [
        8usize,
        4096,
        heap_lo - 8,
        heap_hi,
        heap_hi + 8,
        (&stack_var as *const usize as usize) & !7,
        usize::MAX & !7,
        1usize << 46,
        (1usize << 47) - 8,
        1usize << 47,
    ] {
        probe(addr, 64, &mut rows);
        probe(addr, 1 << 20, &mut rows);
    }
    ev(Obj::new("Probes").json("rows", &json_array(rows)));
}

#[cfg(not(feature = "vo_bit"))]
pub fn probes<const V: u32>(_d: &mut Driver<V>, _p: &Params) {}
