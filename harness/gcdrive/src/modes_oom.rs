//! C10: out-of-memory and allocation-option contract. The driver keeps part of the heap live, then
//! issues a grid of requests (sizes x allocation options); every binding callback between the call
//! and its return is in the trace (BlockEnter/BlockExit, Resume, OutOfMemory), the spec judges.

use crate::prog::{reset, Params};
use crate::Driver;
use mmtk::memory_manager;
use mmtk::util::alloc::AllocationOptions;
use mmtk::util::{Address, ObjectReference};
use shadowvm::*;
use vcommon::*;

fn call<const V: u32>(d: &mut Driver<V>, sem_code: u64, size: usize, opts: AllocationOptions, heap_bytes: usize) {
    let sem = crate::sem_of(sem_code);
    let id = d.next_id;
    d.next_id += 1;
    // sizes travel in KB (rounded up) so that they fit a TLC integer; `huge` marks > 2^40
    let kb = ((size >> 10) + 1).min(1 << 30);
    ev(Obj::new("OptCall")
        .int("id", id as i64)
        .int("sem", sem_code as i64)
        .int("szKB", kb as i64)
        .bool("overHeap", (size >> 12) > (heap_bytes >> 12))
        .bool("overcommit", opts.allow_overcommit)
        .bool("safepoint", opts.at_safepoint)
        .bool("oomCall", opts.allow_oom_call)
        .int("heapKB", (heap_bytes >> 10) as i64));
    let mu = mutator::<V>(0);
    let a = memory_manager::alloc_with_options::<ShadowVM<V>>(mu, size, 8, 0, sem, opts);
    if !a.is_zero() {
        // make it a parsable object, rooted in slot 3 until the next successful call replaces it
        let s = a.as_usize();
        // zero check on the first and last 64 KB (the whole object when smaller)
        let mut zero = true;
        let mut q = s;
        while q < s + size {
            if load_word(q) != 0 {
                zero = false;
                break;
            }
            q += 8;
            if q == s + (64 << 10) && size > (128 << 10) {
                q = s + size - (64 << 10);
            }
        }
        let h = Hdr { size, nfields: 0, log_align: 3, kind: KIND_PLAIN, off8: 0 };
        store_word(s, 0);
        store_word(s + 8, pack_hdr(&h));
        store_word(s + 16, id as usize);
        let r = ref_of_start(s);
        let o = ObjectReference::from_raw_address(unsafe { Address::from_usize(r) }).unwrap();
        memory_manager::post_alloc::<ShadowVM<V>>(mu, o, size, sem);
        Driver::<V>::root_set(0, 3, r);
        ev(Obj::new("Alloc")
            .int("id", id as i64)
            .int("m", 0)
            .int("slot", Driver::<V>::slot_name(0, 3))
            .int("sem", sem_code as i64)
            .int("sz", size as i64)
            .int("nf", 0)
            .int("k", 0)
            .int("al", 8)
            .int("off", 0)
            .json("a", &proj(r))
            .json("s", &proj(s))
            .int("lo", (s & 4095) as i64)
            .bool("zero", zero)
            .bool("inMMTk", memory_manager::is_in_mmtk_spaces(o) && memory_manager::is_mapped_address(a))
            .int("h", payload_hash(r)));
    }
    ev(Obj::new("OptRet").int("id", id as i64).bool("null", a.is_zero()));
}

pub fn oom_mode<const V: u32>(d: &mut Driver<V>, p: &Params, heap_mb: usize, is_nogc: bool) {
    let heap = heap_mb << 20;
    let max_non_los = d.max_non_los.min(heap);
    let rounds = arg_u64("rounds", 3);
    for round in 0..rounds {
        reset(4000 + round);
        // keep `live_frac`/8 of the heap alive: a linked chain of 4 KB objects hanging off root 0
        let live_eighths = [2usize, 4, 5][(round % 3) as usize];
        // dynamic heap size: the first round starts on the empty, still minimal heap, so that
        // requests between the current and the maximum heap size are issued
        let fresh = round == 0 && arg("trigger").map_or(false, |t| t.starts_with("Dynamic"));
        let live_target = if is_nogc || fresh { 0 } else { heap / 8 * live_eighths };
        let mut live = 0usize;
        let mut failed = 0;
        while live < live_target && failed < 3 {
            safepoint();
            // the chain alternates 4 KB objects (default space) and 60 KB objects (large object
            // space under most plans) so that few objects hold the live data
            let csize = if (live / 4096) % 8 == 0 { 4096 } else { 61440 };
            let r = d.new_object(0, 1, 0, csize, 1, 8, 0, KIND_PLAIN);
            if r == 0 {
                failed += 1;
                continue;
            }
            // read the chain head after the allocation: the allocation may have collected
            let prev = Driver::<V>::root_get(0, 0);
            // new.f[0] = prev ; root0 = new  (through the barrier)
            if prev != 0 {
                d.set_root(0, 2, prev);
                d.write_field(0, 1, 0, prev);
            }
            d.set_root(0, 0, r);
            live += csize;
        }
        ev(Obj::new("OomRound").int("round", round as i64).int("liveKB", (live >> 10) as i64));
        let sizes: Vec<usize> = vec![
            64,
            2048,
            max_non_los.saturating_sub(64).max(64) & !7,
            (heap / 16) & !7,
            (heap / 4) & !7,
            (heap / 2) & !7,
            (heap - 4096) & !7,
            heap & !7,
            (heap + 4096) & !7,
            (heap * 2) & !7,
            1usize << 40,
            (isize::MAX as usize) & !7,
            usize::MAX & !4095,
        ];
        for &size in &sizes {
            // on the fresh dynamic heap the requests that must collect (and grow the heap) come
            // before the overcommitted ones, which would grow it without a collection
            let order: [u32; 8] = if fresh { [6, 2, 4, 0, 7, 3, 5, 1] } else { [0, 1, 2, 3, 4, 5, 6, 7] };
            for bits in order {
                let opts = AllocationOptions {
                    allow_overcommit: bits & 1 != 0,
                    at_safepoint: bits & 2 != 0,
                    allow_oom_call: bits & 4 != 0,
                };
                // NoGC serves every size from its bump allocator; requests of 2^63 bytes and more
                // overflow its address arithmetic (recorded defect, probe run --hugesize only)
                if is_nogc && size >= (1usize << 62) && !flag("hugesize") {
                    continue;
                }
                if is_nogc && size > 4096 && size <= heap * 2 {
                    // NoGC cannot collect: a request that fills the heap at a safepoint panics by
                    // design ("GC triggered in nogc"); precondition, not generated
                    continue;
                }
                if opts.allow_overcommit && size > heap * 2 && size < (1usize << 40) {
                    continue;
                }
                safepoint();
                if opts.allow_overcommit && size >= heap / 4 && !is_nogc {
                    d.gc(0, true);
                }
                let sem = if size >= d.max_non_los { 2 } else { *d.rng.pick(&p.sems) };
                let sem = if matches!(sem, 1 | 3 | 4 | 5 | 6) { 0 } else { sem };
                let sem = if sem == 0 && size >= d.max_non_los { 2 } else { sem };
                call::<V>(d, sem, size, opts, heap);
            }
        }
        // "may exceed the heap size": a burst of small overcommitted requests whose total exceeds
        // the heap by a quarter, none of which may block or fail
        if !is_nogc {
            let opts = AllocationOptions { allow_overcommit: true, at_safepoint: true, allow_oom_call: true };
            let mut total = 0usize;
            while total < heap + heap / 4 {
                safepoint();
                let size = if d.rng.chance(1, 4) { 65536 } else { 8 * d.rng.range(8, 1000) as usize };
                let sem = if size >= d.max_non_los { 2 } else { 0 };
                call::<V>(d, sem, size, opts, heap);
                total += size;
            }
            d.gc(0, true);
        }
    }
}
