//! Program generation and execution (generator G2 of DESIGN.md: seeded random programs).

use crate::Driver;
use mmtk::util::options::PlanSelector;
use shadowvm::*;
use std::sync::atomic::Ordering;
use vcommon::*;

pub struct Params {
    pub nmut: usize,
    pub nslots: usize,
    pub sems: Vec<u64>,
    pub allow_big: bool,
    pub allow_bind: bool,
}

pub fn run<const V: u32>() {
    let plan = arg_or("plan", "SemiSpace");
    let out = arg_or("out", "gcdrive.ndjson");
    let cfg = Config {
        plan: plan.clone(),
        heap_mb: arg_u64("heap", 24) as usize,
        workers: arg_u64("workers", 3) as usize,
        mutators: arg_u64("mutators", 2) as usize,
        extra_options: arg("opts")
            .map(|s| {
                s.split(',')
                    .filter(|p| !p.is_empty())
                    .map(|p| {
                        let mut it = p.splitn(2, '=');
                        (it.next().unwrap().to_string(), it.next().unwrap_or("").to_string())
                    })
                    .collect()
            })
            .unwrap_or_default(),
        gc_trigger: arg("trigger"),
    };
    TRACE.open(&out);
    install_process_hooks();
    let m = boot::<V>(&cfg);
    let constraints = m.get_plan().constraints();
    let is_nogc = matches!(*m.get_options().plan, PlanSelector::NoGC);
    let mut d = Driver::<V> {
        next_id: 1,
        barrier: constraints.barrier,
        max_non_los: constraints.max_non_los_default_alloc_bytes,
        rng: Rng::new(seed_from_env() ^ 0x51ed),
    };
    ev(Obj::new("Boot")
        .str("plan", &plan)
        .int("variant", V as i64)
        .int("workers", cfg.workers as i64)
        .int("mutators", cfg.mutators as i64)
        .int("heapMB", cfg.heap_mb as i64)
        .bool("moves", constraints.moves_objects)
        .bool("generational", constraints.generational)
        .int("maxNonLos", constraints.max_non_los_default_alloc_bytes.min(1 << 30) as i64)
        .str("barrier", &format!("{:?}", constraints.barrier)));
    // family "space" (C28/C31): the space table every grant / lookup of this run is judged against
    crate::modes_space::spaces_event::<V>(&plan);
    let programs = arg_u64("programs", 10);
    let ops = arg_u64("ops", 150);
    let sems: Vec<u64> = arg_or("sems", "0,0,0,0,0,0,1,2")
        .split(',')
        .filter_map(|s| s.parse().ok())
        .collect();
    let params = Params {
        nmut: cfg.mutators,
        nslots: arg_u64("slots", 12) as usize,
        sems,
        allow_big: !flag("nobig"),
        allow_bind: flag("bind"),
    };
    crate::TRY_FIRST.store(flag("tryfirst"), Ordering::Relaxed);
    if flag("copydelay") {
        // C17 in situ: a worker that has won the forwarding race of an object is delayed inside
        // ObjectModel::copy (the object is "being forwarded"), so that other workers tracing the
        // same object meet it in that state
        mmtk::verif::install_sync_hook(Box::new(|site, id| {
            if site == "copy.before" && (id >> 4) % 3 == 0 {
                std::thread::sleep(std::time::Duration::from_micros(400));
            }
        }));
    }
    let mode = arg_or("mode", "random");
    match mode.as_str() {
        "random" => {
            for p in 0..programs {
                random_program::<V>(&mut d, &params, p, ops, is_nogc);
            }
        }
        "grid" => {
            // C03: the legal argument grid on a fresh heap, then on a used (fragmented) heap
            crate::modes::alloc_grid::<V>(&mut d, &params, 0);
            for p in 0..programs {
                random_program::<V>(&mut d, &params, p, ops, is_nogc);
            }
            crate::modes::alloc_grid::<V>(&mut d, &params, 1);
        }
        "cycles" => crate::modes::cycles::<V>(&mut d, &params, arg_u64("cycles", 40), cfg.heap_mb),
        "oom" => crate::modes_oom::oom_mode::<V>(&mut d, &params, cfg.heap_mb, is_nogc),
        // C06: soft / weak / phantom references and finalizers
        "refs" => crate::modes_refs::refs_mode::<V>(&mut d, &params, programs, ops, cfg.heap_mb),
        "immixlines" => crate::modes_immix::immixlines::<V>(&mut d, &params, cfg.heap_mb),
        // family "barrier": C05 old-to-young stores / region copies, C12 SATB hiding patterns
        "gen" => crate::modes_gen::gen_mode::<V>(&mut d, &params, programs, ops),
        "satb" => crate::modes_satb::satb_mode::<V>(&mut d, &params, programs, ops, cfg.heap_mb),
        // family "space": C24 side-metadata layout of the configuration, C31 address lookups
        "layout" => crate::modes_space::layout::<V>(&plan),
        "churn" => crate::modes_space::churn::<V>(&mut d, &params, cfg.heap_mb, is_nogc),
        "bigchunks" => crate::modes_space::bigchunks::<V>(&mut d, &params, cfg.heap_mb),
        "lookup" => crate::modes_space::lookup::<V>(&mut d, &params, &plan, &out, is_nogc),
        _ => {
            eprintln!("unknown mode");
            std::process::exit(2);
        }
    }
    ev(Obj::new("End").int("copied", COPY_COUNT.load(Ordering::Relaxed) as i64));
    TRACE.flush();
    println!("events={}", TRACE.len());
    std::process::exit(0);
}

fn pick_size(rng: &mut Rng, allow_big: bool) -> usize {
    let c = rng.below(100);
    let words = if c < 60 {
        rng.range(3, 16)
    } else if c < 85 {
        rng.range(16, 200)
    } else if c < 96 || !allow_big {
        rng.range(200, 2000)
    } else if c < 99 {
        rng.range(2000, 9000) // up to ~72 KB: beyond Immix/copying non-LOS limits
    } else {
        rng.range(9000, 40000)
    };
    (words as usize) * 8
}

/// Drop every root of every mutator and start a new program in the trace.
pub fn reset(pi: u64) {
    with_world(|w| {
        for m in w.mutators.iter_mut() {
            for r in m.roots.iter_mut() {
                *r = 0;
            }
        }
        for r in w.vm_roots.iter_mut() {
            *r = 0;
        }
        w.pin_roots.clear();
        w.tpin_roots.clear();
        w.weak_table.clear();
    });
    ev(Obj::new("Reset").int("prog", pi as i64));
}

/// C04: pin (or, when it is pinned and `may_unpin`, unpin) an object through `pin_object`. Only
/// in spaces whose policy supports the call: copying, mark-compact and compressor spaces panic by
/// contract.
#[cfg(feature = "object_pinning")]
fn pin_op<const V: u32>(_d: &mut Driver<V>, r: usize, may_unpin: bool) {
    use mmtk::util::{Address, ObjectReference};
    const PINNABLE: [&str; 9] =
        ["immix", "ms", "immortal", "los", "nonmoving", "nogc_space", "code_space", "code_lo_space", "ro_space"];
    let a = unsafe { Address::from_usize(r) };
    if !PINNABLE.contains(&mmtk::verif::space_name_of_address(a)) {
        return;
    }
    let o = ObjectReference::from_raw_address(a).unwrap();
    let id = (id_of_ref(r) & 0x7fff_ffff) as i64;
    if may_unpin && mmtk::memory_manager::is_pinned(o) {
        let ok = mmtk::memory_manager::unpin_object(o);
        ev(Obj::new("Unpin").int("id", id).bool("ok", ok));
    } else {
        let ok = mmtk::memory_manager::pin_object(o);
        ev(Obj::new("Pin").int("id", id).bool("ok", ok).bool("now", mmtk::memory_manager::is_pinned(o)));
    }
}

/// C07 / C02: blocks in which every line keeps a survivor while other objects of the same lines
/// die. Small objects are allocated back to back; every `k`-th one is linked into a chain that stays
/// rooted, the others are dropped at once; then an exhaustive collection. The space is swept at a
/// granularity (line, block, cell) coarser than the objects that died.
fn dense_blocks<const V: u32>(d: &mut Driver<V>, p: &Params, m: usize) {
    let head = p.nslots + 1; // root slots the random program never touches
    let tmp = p.nslots + 2;
    let k = 2 + d.rng.below(3) as usize;
    let size = [32usize, 48, 64, 96][d.rng.below(4) as usize];
    let n = 1100 + d.rng.below(500) as usize;
    for i in 0..n {
        safepoint();
        let keep = i % k == 0;
        let r = d.new_object(m, tmp, 0, size, 1, 8, 0, KIND_PLAIN);
        if r == 0 {
            break;
        }
        if keep {
            let prev = Driver::<V>::root_get(m, head);
            if prev != 0 {
                d.write_field(m, tmp, 0, prev);
            }
            let cur = Driver::<V>::root_get(m, tmp);
            d.set_root(m, head, cur);
        }
    }
    d.set_root(m, tmp, 0);
    d.gc(m, true);
    d.gc(m, true);
    d.set_root(m, head, 0);
}

pub fn random_program<const V: u32>(d: &mut Driver<V>, p: &Params, pi: u64, nops: u64, is_nogc: bool) {
    let probes = flag("probes");
    // Reset: drop every root of every bound mutator
    with_world(|w| {
        for m in w.mutators.iter_mut() {
            for r in m.roots.iter_mut() {
                *r = 0;
            }
        }
        for r in w.vm_roots.iter_mut() {
            *r = 0;
        }
        w.pin_roots.clear();
        w.tpin_roots.clear();
        w.weak_table.clear();
    });
    ev(Obj::new("Reset").int("prog", pi as i64));
    let mut bound: Vec<bool> = with_world(|w| w.mutators.iter().map(|m| m.ptr != 0).collect());
    if flag("copydelay") && !is_nogc {
        // hub objects: referenced from many roots of every bound mutator and from each other, so
        // that several workers trace the same object at the same time
        let ms: Vec<usize> = (0..MAX_MUTATORS).filter(|i| bound[*i]).collect();
        let m0 = ms[0];
        for h in 0..3usize {
            let size = 8 * d.rng.range(6, 40) as usize;
            let r = d.new_object(m0, h, 0, size, 2, 8, 0, KIND_PLAIN);
            if r == 0 {
                break;
            }
            for &m in ms.iter() {
                for j in 0..4usize {
                    let slot = p.nslots + 3 + 4 * h + j;
                    let cur = Driver::<V>::root_get(m0, h);
                    d.set_root(m, slot, cur);
                }
            }
            if h > 0 {
                let prev = Driver::<V>::root_get(m0, h - 1);
                d.write_field(m0, h, 0, prev);
            }
        }
    }
    if flag("dense") && pi % 3 == 0 && !is_nogc {
        let m = (0..MAX_MUTATORS).find(|i| bound[*i]).unwrap();
        dense_blocks::<V>(d, p, m);
    }
    let gc_weight = if is_nogc { 0 } else { 1 + d.rng.below(6) };
    for _ in 0..nops {
        safepoint();
        let live_muts: Vec<usize> = (0..MAX_MUTATORS).filter(|i| bound[*i]).collect();
        let m = *d.rng.pick(&live_muts);
        let c = d.rng.below(100);
        let nonnull: Vec<usize> = (0..p.nslots).filter(|i| Driver::<V>::root_get(m, *i) != 0).collect();
        if c < 40 || nonnull.is_empty() {
            // New
            let slot = d.rng.below(p.nslots as u64) as usize;
            let sem = *d.rng.pick(&p.sems);
            let mut size = pick_size(&mut d.rng, p.allow_big);
            if matches!(sem, 1 | 3 | 4 | 5 | 6) {
                size = size.min(4096); // keep never-collected spaces small
            }
            if sem == 2 {
                size = size.max(8192);
            }
            let maxnf = ((size - HDR_BYTES) / 8).min(6);
            let nf = d.rng.below(maxnf as u64 + 1) as usize;
            let r = d.new_object(m, slot, sem, size, nf, 8, 0, KIND_PLAIN);
            // pin some objects while they are still young (nursery collections must honour the pin)
            #[cfg(feature = "object_pinning")]
            if r != 0 && d.rng.chance(1, 5) {
                pin_op::<V>(d, r, false);
            }
            let _ = r;
        } else if c < 65 {
            // Write
            let a = *d.rng.pick(&nonnull);
            let src = Driver::<V>::root_get(m, a);
            let nf = hdr_of_ref(src).nfields;
            if nf == 0 {
                continue;
            }
            let k = d.rng.below(nf as u64) as usize;
            // target: any root of any bound mutator, or null
            let tm = *d.rng.pick(&live_muts);
            let b = d.rng.below(p.nslots as u64) as usize;
            let val = if d.rng.chance(1, 8) { 0 } else { Driver::<V>::root_get(tm, b) };
            d.write_field(m, a, k, val);
        } else if c < 75 {
            // Load
            let a = *d.rng.pick(&nonnull);
            let src = Driver::<V>::root_get(m, a);
            let nf = hdr_of_ref(src).nfields;
            if nf == 0 {
                continue;
            }
            let k = d.rng.below(nf as u64) as usize;
            let mc = *d.rng.pick(&live_muts);
            let cslot = d.rng.below(p.nslots as u64) as usize;
            d.load_field(m, a, k, mc, cslot);
        } else if c < 88 {
            // Drop / copy root
            #[cfg(feature = "object_pinning")]
            if d.rng.chance(1, 3) {
                let a = *d.rng.pick(&nonnull);
                let unpin = d.rng.chance(1, 2);
                pin_op::<V>(d, Driver::<V>::root_get(m, a), unpin);
                continue;
            }
            let slot = d.rng.below(p.nslots as u64) as usize;
            if d.rng.chance(2, 3) {
                d.set_root(m, slot, 0);
            } else {
                let a = *d.rng.pick(&nonnull);
                let v = Driver::<V>::root_get(m, a);
                let tm = *d.rng.pick(&live_muts);
                d.set_root(tm, slot, v);
            }
        } else if c < 88 + gc_weight {
            let ex = d.rng.chance(1, 2);
            d.gc(m, ex);
            if !flag("nochurn") && d.rng.chance(1, 2) {
                // Churn and re-walk: refill the memory the collection reclaimed with fresh objects of
                // every semantics in use (they die at once: each overwrites the same scratch slot),
                // then report the reachable graph again. A reference that still points at a stale
                // copy in released memory reads foreign data now.
                let n = d.rng.range(20, 120);
                let scratch = p.nslots; // a root slot the program itself never uses
                for _ in 0..n {
                    safepoint();
                    let sem = *d.rng.pick(&p.sems);
                    let mut size = pick_size(&mut d.rng, p.allow_big);
                    if matches!(sem, 1 | 3 | 4 | 5 | 6) {
                        size = size.min(2048);
                    }
                    if sem == 2 {
                        size = size.max(8192);
                    }
                    let maxnf = ((size - HDR_BYTES) / 8).min(3);
                    d.new_object(m, scratch, sem, size, maxnf, 8, 0, KIND_PLAIN);
                }
                d.set_root(m, scratch, 0);
                safepoint();
                shadowvm::walker::report::<V>("PostChurn", GC_EPOCH.load(Ordering::Relaxed));
            }
            if probes {
                crate::modes::probes::<V>(d, p);
            }
        } else if c < 96 && p.allow_bind {
            // bind / destroy a mutator (never the last one)
            let cand = d.rng.below(MAX_MUTATORS as u64) as usize;
            if bound[cand] && live_muts.len() > 1 {
                destroy::<V>(cand);
                bound[cand] = false;
            } else if !bound[cand] {
                bind::<V>(cand);
                bound[cand] = true;
                // a freshly bound mutator starts working at once: it allocates a few objects and
                // links them to objects other mutators hold
                let others: Vec<(usize, usize)> = live_muts
                    .iter()
                    .flat_map(|om| (0..p.nslots).map(move |i| (*om, i)))
                    .filter(|(om, i)| Driver::<V>::root_get(*om, *i) != 0)
                    .collect();
                for j in 0..d.rng.range(1, 4) as usize {
                    let size = 8 * d.rng.range(5, 40) as usize;
                    let r = d.new_object(cand, j % p.nslots, 0, size, 2, 8, 0, KIND_PLAIN);
                    if r != 0 && !others.is_empty() {
                        let (om, oi) = *d.rng.pick(&others);
                        let tgt = Driver::<V>::root_get(om, oi);
                        let k = d.rng.below(2) as usize;
                        d.write_field(cand, j % p.nslots, k, tgt);
                    }
                }
            }
        } else {
            // burst of short-lived allocations (fills nursery / TLABs)
            let n = d.rng.range(5, 60);
            let slot = d.rng.below(p.nslots as u64) as usize;
            for _ in 0..n {
                let size = pick_size(&mut d.rng, false);
                d.new_object(m, slot, 0, size, 0, 8, 0, KIND_PLAIN);
            }
        }
    }
    if !is_nogc {
        d.gc(0.max(*(0..MAX_MUTATORS).filter(|i| bound[*i]).collect::<Vec<_>>().first().unwrap()), true);
    }
}
