//! Directed driver mode for C12 (ConcurrentImmix keeps the snapshot at the beginning): `--mode satb`.
//!
//! Each program builds a graph of old objects (Default / LOS / Immortal holders with children and
//! grandchildren), allocates until MMTk starts a concurrent collection (InitialMark pause), and
//! then - while concurrent marking is in progress - performs the classic hiding patterns through
//! the real SATB barrier: load a reference out of an object into a root and clear the field; move
//! it into an object allocated during marking; cut a chain above an object that stays reachable;
//! swap children of two objects; publish objects allocated during marking only through old objects;
//! copy reference arrays (memory_region_copy_pre). The concurrent marking packets are held at their
//! first instruction (`sync_point("concurrent_trace")`, a gate the driver opens, with a time limit
//! so that nothing can deadlock) for the first batch of mutations and run truly concurrently with
//! the second batch. The program then polls until the FinalMark pause has happened (falling back to
//! a user request: the scheduler's lost wake-up in the concurrent phase can stall marking), churns
//! the heap and forces a full collection so that anything wrongly reclaimed is overwritten and seen.
//!
//! The mode only reports; Trace_SATB.tla judges (HeapTrace's graph checks at every pause + at
//! FinalMark: snapshot and objects allocated during marking are still valid objects).

use crate::modes_gen::{gen_alloc, gen_write, region_copy};
use crate::prog::{reset, Params};
use crate::Driver;
use mmtk::memory_manager;
use shadowvm::*;
use std::sync::atomic::{AtomicBool, AtomicU64, Ordering};
use std::time::{Duration, Instant};
use vcommon::*;

static GATE_CLOSED: AtomicBool = AtomicBool::new(false);
static GATE_LIMIT_US: AtomicU64 = AtomicU64::new(200_000);
static JITTER: AtomicU64 = AtomicU64::new(0);
static HELD: AtomicU64 = AtomicU64::new(0);

const NSCEN: usize = 6; // scenario roots: slots 0..NSCEN of mutator 0 (and 1)
const TMP: usize = 16;

fn install_gate<const V: u32>() {
    let m = mmtk::<V>();
    mmtk::verif::install_sync_hook(Box::new(move |site, _n| {
        if site != "concurrent_trace" {
            return;
        }
        // packets run inside the FinalMark pause (ProcessModBufSATB) are never delayed
        if !mmtk::verif::concurrent_work_in_progress(m) {
            return;
        }
        let t0 = Instant::now();
        let limit = Duration::from_micros(GATE_LIMIT_US.load(Ordering::Relaxed));
        let mut held = false;
        while GATE_CLOSED.load(Ordering::Acquire) && t0.elapsed() < limit {
            held = true;
            std::thread::sleep(Duration::from_micros(50));
        }
        if held {
            HELD.fetch_add(1, Ordering::Relaxed);
        }
        // seeded jitter so that marking and the second batch of mutations overlap differently
        let j = JITTER.fetch_add(0x9E37_79B9_7F4A_7C15, Ordering::Relaxed);
        let us = (j >> 40) % 400;
        if us > 0 {
            std::thread::sleep(Duration::from_micros(us));
        }
    }));
}

fn marking<const V: u32>() -> bool {
    mmtk::verif::concurrent_work_in_progress(mmtk::<V>())
}

/// Unlogged filler allocation (the model never sees these objects: they are never reachable).
fn quiet_filler<const V: u32>(d: &mut Driver<V>, m: usize, size: usize) {
    crate::QUIET_ALLOC.store(true, Ordering::Relaxed);
    d.new_object(m, TMP + 15, 0, size, 0, 8, 0, KIND_PLAIN);
    Driver::<V>::root_set(m, TMP + 15, 0);
    crate::QUIET_ALLOC.store(false, Ordering::Relaxed);
}

/// Wait (polling, allocating a little) until no concurrent marking is in progress and no pause is
/// running; fall back to a user-triggered request when marking does not finish by itself.
fn finish_cycle<const V: u32>(d: &mut Driver<V>) {
    let m = mmtk::<V>();
    let mut spins = 0u64;
    let mut asked = 0;
    while marking::<V>() || m.gc_in_progress() {
        safepoint();
        memory_manager::gc_poll(m, mutator_tls(0));
        std::thread::sleep(Duration::from_micros(200));
        spins += 1;
        if spins % 64 == 0 {
            quiet_filler::<V>(d, 0, 4096);
        }
        if spins % 2500 == 0 && asked < 3 {
            // marking stalled (all workers parked with packets queued): a request wakes them
            asked += 1;
            d.gc(0, false);
        }
        if spins > 20_000 {
            break;
        }
    }
    ev(Obj::new("ConcurrentWait").int("round", asked).int("spins", spins as i64));
}

struct Scen {
    m: usize,
    slot: usize,
}

fn root<const V: u32>(s: &Scen) -> usize {
    Driver::<V>::root_get(s.m, s.slot)
}
fn field(r: usize, k: usize) -> usize {
    load_word(field_addr(r, k))
}

pub fn satb_mode<const V: u32>(d: &mut Driver<V>, p: &Params, programs: u64, ops: u64, heap_mb: usize) {
    JITTER.store(seed_from_env().wrapping_mul(0x2545_F491_4F6C_DD1D) | 1, Ordering::Relaxed);
    install_gate::<V>();
    // one root packet per bound mutator (+ one for the VM roots): with all four mutators bound and
    // up to four workers the Concurrent bucket is never drained while the marker is held
    if !flag("noextramut") {
        for m in p.nmut..MAX_MUTATORS {
            if with_world(|w| w.mutators[m].ptr == 0) {
                bind::<V>(m);
            }
        }
    }
    for pi in 0..programs {
        satb_program::<V>(d, p, pi, ops, heap_mb);
    }
    GATE_CLOSED.store(false, Ordering::Release);
    mmtk::verif::remove_sync_hook();
    ev(Obj::new("SatbEnd").int("held", HELD.load(Ordering::Relaxed) as i64));
}

fn alloc_node<const V: u32>(d: &mut Driver<V>, p: &Params, m: usize, slot: usize, nf: usize) -> usize {
    let sem = *d.rng.pick(&p.sems);
    let sem = if matches!(sem, 0 | 1 | 2) { sem } else { 0 };
    let size = match sem {
        2 => 8 * d.rng.range(1024, 2500) as usize,
        1 => HDR_BYTES + 8 * nf + 8 * d.rng.below(6) as usize,
        _ => HDR_BYTES + 8 * nf + 8 * d.rng.below(60) as usize,
    };
    gen_alloc::<V>(d, m, slot, sem, size, nf)
}

fn satb_program<const V: u32>(d: &mut Driver<V>, p: &Params, pi: u64, nops: u64, heap_mb: usize) {
    GATE_CLOSED.store(false, Ordering::Release);
    finish_cycle::<V>(d);
    reset(pi);
    d.gc(0, true);
    finish_cycle::<V>(d);
    let nmut = p.nmut.clamp(1, 2);
    // ---- the old graph: A -> {B -> C, X, Y} per scenario ------------------------------------------
    let scen: Vec<Scen> = (0..NSCEN * nmut).map(|i| Scen { m: i % nmut, slot: i / nmut }).collect();
    for s in &scen {
        safepoint();
        let nf = d.rng.range(3, 6) as usize;
        if alloc_node::<V>(d, p, s.m, s.slot, nf) == 0 {
            continue;
        }
        for k in 0..nf {
            // child (with its own child for k == 0)
            let c = alloc_node::<V>(d, p, s.m, TMP, 2);
            if c == 0 {
                continue;
            }
            if k == 0 || d.rng.chance(1, 3) {
                let g = alloc_node::<V>(d, p, s.m, TMP + 1, 1);
                if g != 0 {
                    let c = Driver::<V>::root_get(s.m, TMP);
                    gen_write::<V>(d, s.m, c, 0, g);
                }
                d.set_root(s.m, TMP + 1, 0);
            }
            let a = root::<V>(s);
            let c = Driver::<V>::root_get(s.m, TMP);
            gen_write::<V>(d, s.m, a, k, c);
            d.set_root(s.m, TMP, 0);
        }
    }
    // ---- several complete concurrent cycles within one program: objects allocated while marking is
    // in progress (large ones in particular) stay reachable over the following cycles ---------------
    let rounds = arg_u64("rounds", 4);
    for round in 0..rounds {
        satb_round::<V>(d, p, &scen, nmut, round, nops, heap_mb);
    }
    d.gc(0, true);
    finish_cycle::<V>(d);
}

/// Large object (Los semantics, 8 KB .. ~300 KB) with a few reference fields.
fn alloc_large<const V: u32>(d: &mut Driver<V>, m: usize, slot: usize) -> usize {
    let words = match d.rng.below(4) {
        0 => d.rng.range(1024, 2048),
        1 => d.rng.range(2048, 8192),
        2 => d.rng.range(8192, 20000),
        _ => d.rng.range(20000, 40000),
    };
    let nf = d.rng.range(2, 4) as usize;
    gen_alloc::<V>(d, m, slot, 2, 8 * words as usize, nf)
}

#[allow(clippy::too_many_arguments)]
fn satb_round<const V: u32>(d: &mut Driver<V>, p: &Params, scen: &[Scen], nmut: usize, round: u64, nops: u64, heap_mb: usize) {
    let use_los = p.sems.contains(&2);
    // ---- allocate until MMTk starts a concurrent collection; hold the marker at its first packet --
    GATE_LIMIT_US.store(100_000 + 1000 * d.rng.below(200), Ordering::Relaxed);
    GATE_CLOSED.store(true, Ordering::Release);
    let mut filled = 0usize;
    let limit = heap_mb << 20;
    while !marking::<V>() && filled < 2 * limit {
        safepoint();
        let size = (8 * d.rng.range(1200, 1900) as usize).min(d.max_non_los - 8);
        quiet_filler::<V>(d, 0, size);
        filled += size;
    }
    ev(Obj::new("MarkingStarted")
        .int("round", round as i64)
        .bool("marking", marking::<V>())
        .int("filledKB", (filled >> 10) as i64));
    // ---- large objects allocated while the marker is held: one kept in a root of its own for the
    // rest of the program, one published only through the old graph. (Their allocation polls for a
    // GC; the Concurrent bucket still holds root packets as long as there are more root packets -
    // one per bound mutator + one - than workers, so the poll does not end the cycle.)
    if use_los {
        let keep = TMP + 10 + (round % 4) as usize;
        alloc_large::<V>(d, 0, keep);
        ev(Obj::new("LargeDuringMarking").int("round", round as i64).bool("marking", marking::<V>()));
        let s = &scen[d.rng.below(scen.len() as u64) as usize];
        if root::<V>(s) != 0 && d.rng.chance(2, 3) {
            let n = alloc_large::<V>(d, s.m, TMP);
            let a = root::<V>(s);
            if n != 0 && a != 0 {
                let k = d.rng.below(hdr_of_ref(a).nfields as u64) as usize;
                // keep what the field held reachable through the new large object
                let oldv = field(a, k);
                gen_write::<V>(d, s.m, n, 0, oldv);
                gen_write::<V>(d, s.m, a, k, n);
            }
            d.set_root(s.m, TMP, 0);
        }
    }
    // ---- batch 1 (marker held) and batch 2 (marker running): hiding patterns -----------------------
    for i in 0..nops {
        if i == nops / 2 {
            GATE_CLOSED.store(false, Ordering::Release);
            ev(Obj::new("GateOpen").bool("marking", marking::<V>()));
        }
        let s = &scen[d.rng.below(scen.len() as u64) as usize];
        let a = root::<V>(s);
        if a == 0 {
            continue;
        }
        let nf = hdr_of_ref(a).nfields;
        let k = d.rng.below(nf as u64) as usize;
        let t = TMP + 2 + d.rng.below(8) as usize; // where hidden references are parked
        let wm = d.rng.below(nmut as u64) as usize;
        match d.rng.below(9) {
            0 | 1 => {
                // H1: root := A.f[k]; A.f[k] := null
                d.load_field(s.m, s.slot, k, s.m, t);
                gen_write::<V>(d, wm, a, k, 0);
            }
            2 => {
                // H2: move A.f[k] into an object allocated during marking
                let x = field(a, k);
                if x == 0 {
                    continue;
                }
                d.load_field(s.m, s.slot, k, s.m, TMP);
                gen_write::<V>(d, wm, a, k, 0);
                let nsz = HDR_BYTES + 16 + 8 * d.rng.below(8) as usize;
                let n = gen_alloc::<V>(d, s.m, t, 0, nsz, 2);
                if n != 0 {
                    let x = Driver::<V>::root_get(s.m, TMP);
                    gen_write::<V>(d, wm, n, 0, x);
                }
                d.set_root(s.m, TMP, 0);
            }
            3 => {
                // H3: keep the grandchild, cut the chain above it
                let b = field(a, k);
                if b == 0 || hdr_of_ref(b).nfields == 0 {
                    continue;
                }
                d.load_field(s.m, s.slot, k, s.m, TMP); // TMP := B
                d.load_field(s.m, TMP, 0, s.m, t); // t := B.f0
                let b = Driver::<V>::root_get(s.m, TMP);
                gen_write::<V>(d, wm, b, 0, 0);
                gen_write::<V>(d, wm, a, k, 0);
                d.set_root(s.m, TMP, 0);
            }
            4 => {
                // H4: swap children of two objects
                let s2 = &scen[d.rng.below(scen.len() as u64) as usize];
                let a2 = root::<V>(s2);
                if a2 == 0 {
                    continue;
                }
                let k2 = d.rng.below(hdr_of_ref(a2).nfields as u64) as usize;
                let (v1, v2) = (field(a, k), field(a2, k2));
                gen_write::<V>(d, wm, a, k, v2);
                gen_write::<V>(d, wm, a2, k2, v1);
            }
            5 => {
                // H6: publish an object allocated during marking only through an old object
                let sz = HDR_BYTES + 8 + 8 * d.rng.below(40) as usize;
                // (large objects mostly once the marker runs: see above)
                let big = use_los && d.rng.chance(1, if i >= nops / 2 { 4 } else { 12 });
                let n = if big { alloc_large::<V>(d, s.m, TMP) } else { gen_alloc::<V>(d, s.m, TMP, 0, sz, 1) };
                if n != 0 {
                    let a = root::<V>(s);
                    gen_write::<V>(d, wm, a, k, n);
                }
                d.set_root(s.m, TMP, 0);
            }
            6 => {
                // H7: array copy over the fields of another object (pre barrier on the destination)
                let s2 = &scen[d.rng.below(scen.len() as u64) as usize];
                let a2 = root::<V>(s2);
                if a2 == 0 || a2 == a {
                    continue;
                }
                let nf2 = hdr_of_ref(a2).nfields;
                let n = d.rng.range(1, nf.min(nf2) as u64) as usize;
                // keep what is about to be overwritten reachable from a root
                d.load_field(s2.m, s2.slot, 0, s.m, t);
                region_copy::<V>(d, wm, a, 0, a2, 0, n);
            }
            7 => {
                // H8: hang a parked reference under one of the large objects allocated during marking
                let keep = TMP + 10 + d.rng.below(4) as usize;
                let l = Driver::<V>::root_get(0, keep);
                if l == 0 {
                    continue;
                }
                let kk = d.rng.below(hdr_of_ref(l).nfields as u64) as usize;
                let v = Driver::<V>::root_get(s.m, t);
                gen_write::<V>(d, wm, l, kk, v);
            }
            _ => {
                // drop a parked reference, or (rarely) a whole scenario
                if d.rng.chance(7, 8) {
                    d.set_root(s.m, t, 0);
                } else {
                    d.set_root(s.m, s.slot, 0);
                }
            }
        }
        if i >= nops / 2 && d.rng.chance(1, 4) {
            std::thread::sleep(Duration::from_micros(d.rng.below(300)));
        }
    }
    GATE_CLOSED.store(false, Ordering::Release);
    ev(Obj::new("MutationsDone").bool("marking", marking::<V>()));
    // ---- let the collection finish (FinalMark), then churn so that anything reclaimed is reused ----
    finish_cycle::<V>(d);
    let churn = d.rng.range(40, 110);
    for _ in 0..churn {
        safepoint();
        let size = match d.rng.below(12) {
            0 if use_los => 8 * d.rng.range(1024, 30000) as usize,
            1..=3 => 8 * d.rng.range(40, 400) as usize,
            _ => HDR_BYTES + 8 * d.rng.below(70) as usize,
        };
        let sem = if size >= 8192 { 2 } else { 0 };
        d.new_object(0, TMP + 14, sem, size, 0, 8, 0, KIND_PLAIN);
    }
    d.set_root(0, TMP + 14, 0);
}
