//! gcdrive: whole-system driver. Runs generated mutator programs against a real MMTk instance
//! (ShadowVM binding) and records everything observable as an NDJSON trace for Trace_Heap.tla.
//! One MMTK instance per process: one process per (plan, variant, feature build, configuration).

use mmtk::memory_manager;
use mmtk::util::{Address, ObjectReference};
use mmtk::{AllocationSemantics, BarrierSelector};
use shadowvm::*;
use std::sync::atomic::Ordering;
use vcommon::*;

mod modes;
mod modes_gen;
mod modes_satb;
mod modes_immix;
mod modes_oom;
mod modes_refs;
mod modes_space;
mod prog;

fn main() {
    let variant = arg_u64("variant", 0) as u32;
    match variant {
        0 => prog::run::<0>(),
        1 => prog::run::<1>(),
        2 => prog::run::<2>(),
        3 => prog::run::<3>(),
        // metadata placement tables (bits 2-4 of V; C24): built only with --features placements
        #[cfg(feature = "placements")]
        v if v >= 4 => placements(v),
        _ => {
            eprintln!("unknown variant");
            std::process::exit(2);
        }
    }
}

/// Variants (placement << 2) | unified-reference bit, placement 1..7.
#[cfg(feature = "placements")]
fn placements(v: u32) {
    macro_rules! arms {
        ($($n:literal),*) => {
            match v {
                $($n => prog::run::<$n>(),)*
                _ => {
                    eprintln!("unknown variant");
                    std::process::exit(2);
                }
            }
        };
    }
    arms!(4, 5, 8, 9, 12, 13, 16, 17, 20, 21, 24, 25, 28, 29)
}

pub fn sem_of(code: u64) -> AllocationSemantics {
    match code {
        0 => AllocationSemantics::Default,
        1 => AllocationSemantics::Immortal,
        2 => AllocationSemantics::Los,
        3 => AllocationSemantics::Code,
        4 => AllocationSemantics::ReadOnly,
        5 => AllocationSemantics::LargeCode,
        _ => AllocationSemantics::NonMoving,
    }
}

/// Cycle mode (C09) allocates hundreds of thousands of objects whose placement nobody judges:
/// their AllocCall/Alloc events are not logged (failures and everything else still are).
pub static QUIET_ALLOC: std::sync::atomic::AtomicBool = std::sync::atomic::AtomicBool::new(false);
/// `--tryfirst`: see `Driver::new_object`.
pub static TRY_FIRST: std::sync::atomic::AtomicBool = std::sync::atomic::AtomicBool::new(false);

pub struct Driver<const V: u32> {
    pub next_id: u64,
    pub barrier: BarrierSelector,
    pub max_non_los: usize,
    pub rng: Rng,
}

impl<const V: u32> Driver<V> {
    pub fn root_slot_addr(m: usize, i: usize) -> usize {
        with_world(|w| &w.mutators[m].roots[i] as *const usize as usize)
    }
    pub fn root_get(m: usize, i: usize) -> usize {
        with_world(|w| w.mutators[m].roots[i])
    }
    pub fn root_set(m: usize, i: usize, v: usize) {
        with_world(|w| w.mutators[m].roots[i] = v)
    }
    pub fn slot_name(m: usize, i: usize) -> i64 {
        (m * 100 + i) as i64
    }

    /// Allocate, initialise and root one object. Returns the reference (0 on failure).
    #[allow(clippy::too_many_arguments)]
    pub fn new_object(
        &mut self,
        m: usize,
        slot: usize,
        sem_code: u64,
        size: usize,
        nf: usize,
        align: usize,
        offset: usize,
        kind: u64,
    ) -> usize {
        let mut sem_code = sem_code;
        assert!(size >= HDR_BYTES + 8 * nf && size % 8 == 0, "driver bug: object of {} bytes with {} fields", size, nf);
        if sem_code == 0 && size >= self.max_non_los {
            sem_code = 2;
        }
        let sem = sem_of(sem_code);
        let id = self.next_id;
        self.next_id += 1;
        let quiet = QUIET_ALLOC.load(Ordering::Relaxed);
        if !quiet {
            ev(Obj::new("AllocCall")
                .int("id", id as i64)
                .int("m", m as i64)
                .int("sem", sem_code as i64)
                .int("sz", size as i64)
                .int("al", align as i64)
                .int("off", offset as i64));
        }
        let mu = mutator::<V>(m);
        // --tryfirst: like a VM with an inline allocation path that may not block, every request
        // is first made with at_safepoint = false and repeated as an ordinary one when refused
        let mut a = mmtk::util::Address::ZERO;
        if TRY_FIRST.load(Ordering::Relaxed) {
            let opts = mmtk::util::alloc::AllocationOptions {
                allow_overcommit: false,
                at_safepoint: false,
                allow_oom_call: false,
            };
            a = memory_manager::alloc_with_options::<ShadowVM<V>>(mu, size, align, offset, sem, opts);
            if a.is_zero() && self.rng.chance(1, 3) {
                // the refusal has requested a collection that has not started yet (this thread has
                // not reached a safepoint): a user request made now overlaps a pending request
                self.gc(m, false);
            }
        }
        if a.is_zero() {
            a = memory_manager::alloc::<ShadowVM<V>>(mu, size, align, offset, sem);
        }
        if a.is_zero() {
            ev(Obj::new("AllocFail").int("id", id as i64));
            return 0;
        }
        let s = a.as_usize();
        // zero check before we touch the memory
        let mut zero = true;
        let mut p = s;
        while p < s + size {
            if load_word(p) != 0 {
                zero = false;
                break;
            }
            p += 8;
        }
        let h = Hdr { size, nfields: nf, log_align: align.trailing_zeros() as usize, kind, off8: offset / 8 };
        store_word(s, 0);
        store_word(s + 8, pack_hdr(&h));
        store_word(s + 16, id as usize);
        for k in 0..nf {
            store_word(s + HDR_BYTES + 8 * k, 0);
        }
        let r = ref_of_start(s);
        fill_payload(r, id);
        let o = ObjectReference::from_raw_address(unsafe { Address::from_usize(r) }).unwrap();
        memory_manager::post_alloc::<ShadowVM<V>>(mu, o, size, sem);
        Self::root_set(m, slot, r);
        if matches!(sem_code, 1 | 3 | 4 | 5) {
            walker::IMMORTALS.lock().unwrap().push((r, id));
        }
        if quiet {
            return r;
        }
        ev(Obj::new("Alloc")
            .int("id", id as i64)
            .int("m", m as i64)
            .int("slot", Self::slot_name(m, slot))
            .int("sem", sem_code as i64)
            .int("sz", size as i64)
            .int("nf", nf as i64)
            .int("k", kind as i64)
            .int("al", align as i64)
            .int("off", offset as i64)
            .json("a", &proj(r))
            .json("s", &proj(s))
            .int("lo", (s & 4095) as i64)
            .str("raw", &format!("{:x}", s))
            .str("sp", mmtk::verif::space_name_of_address(a))
            .str("spEnd", mmtk::verif::space_name_of_address(a + (size - 8)))
            .str("spSem", mmtk::verif::space_name_for_semantics(mu, sem))
            .bool("zero", zero)
            .bool("inMMTk", memory_manager::is_in_mmtk_spaces(o) && memory_manager::is_mapped_address(a))
            .int("h", payload_hash(r)));
        r
    }

    /// obj(root a).f[k] := root b (through the plan's write barrier)
    pub fn write_field(&mut self, m: usize, a: usize, k: usize, b_val: usize) {
        let src = Self::root_get(m, a);
        assert!(src != 0);
        let slot = unsafe { Address::from_usize(field_addr(src, k)) };
        let src_o = ObjectReference::from_raw_address(unsafe { Address::from_usize(src) }).unwrap();
        let tgt_o = ObjectReference::from_raw_address(unsafe { Address::from_usize(b_val) });
        let mu = mutator::<V>(m);
        let old = load_word(field_addr(src, k));
        match self.barrier {
            BarrierSelector::NoBarrier => {
                store_word(field_addr(src, k), b_val);
            }
            BarrierSelector::ObjectBarrier => {
                store_word(field_addr(src, k), b_val);
                memory_manager::object_reference_write_post::<ShadowVM<V>>(mu, src_o, slot, tgt_o);
            }
            BarrierSelector::SATBBarrier => {
                memory_manager::object_reference_write_pre::<ShadowVM<V>>(mu, src_o, slot, tgt_o);
                store_word(field_addr(src, k), b_val);
            }
        }
        if QUIET_ALLOC.load(Ordering::Relaxed) {
            return;
        }
        ev(Obj::new("Write")
            .int("m", m as i64)
            .int("src", (id_of_ref(src) & 0x7fff_ffff) as i64)
            .int("k", k as i64 + 1)
            .int("tgt", if b_val == 0 { 0 } else { (id_of_ref(b_val) & 0x7fff_ffff) as i64 })
            .int("old", if old == 0 { 0 } else { (id_of_ref(old) & 0x7fff_ffff) as i64 }));
    }

    pub fn set_root(&mut self, m: usize, slot: usize, val: usize) {
        Self::root_set(m, slot, val);
        ev(Obj::new("SetRoot")
            .int("slot", Self::slot_name(m, slot))
            .int("id", if val == 0 { 0 } else { (id_of_ref(val) & 0x7fff_ffff) as i64 }));
    }

    /// root c := obj(root a).f[k]
    pub fn load_field(&mut self, m: usize, a: usize, k: usize, mc: usize, c: usize) {
        let src = Self::root_get(m, a);
        let v = load_word(field_addr(src, k));
        Self::root_set(mc, c, v);
        ev(Obj::new("Load")
            .int("src", (id_of_ref(src) & 0x7fff_ffff) as i64)
            .int("k", k as i64 + 1)
            .int("slot", Self::slot_name(mc, c))
            .int("id", if v == 0 { 0 } else { (id_of_ref(v) & 0x7fff_ffff) as i64 }));
    }

    pub fn gc(&mut self, m: usize, exhaustive: bool) {
        ev(Obj::new("GCRequest").int("m", m as i64).bool("exhaustive", exhaustive));
        let before = GC_EPOCH.load(Ordering::Relaxed);
        mmtk::<V>().handle_user_collection_request(mutator_tls(m), true, exhaustive);
        ev(Obj::new("GCReturn").int("m", m as i64).int("pauses", (GC_EPOCH.load(Ordering::Relaxed) - before) as i64));
    }
}
