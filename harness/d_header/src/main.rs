//! Family "header": drivers for C23 (in-header metadata accessors) and C25 (side-metadata sanity
//! checking). Each sub-command runs the real mmtk-core code and writes an NDJSON trace that a TLA+
//! trace specification validates. The drivers never judge; they only report inputs and results.

mod header;
mod sanity;

fn main() {
    let args: Vec<String> = std::env::args().collect();
    match args.get(1).map(|s| s.as_str()).unwrap_or("") {
        "header" => header::run(),
        "sanity" => sanity::run(),
        _ => {
            eprintln!("usage: d_header <header|sanity> --out <trace.ndjson> [--level 0|1|2] ...");
            std::process::exit(2);
        }
    }
}
