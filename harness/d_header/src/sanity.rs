//! C25: drive the real side-metadata sanity checking (src/util/metadata/side_metadata/sanity.rs)
//! through the hooks `verif_sanity_hooks::{verif_sanity_init, verif_no_overlap_contiguous,
//! verif_sanity_contexts}`.
//!
//! Rows:
//!   {"ev":"Pair","i":n,"s1":S,"s2":S,"ok":bool}            verify_no_overlap_contiguous(s1,s2).is_ok()
//!   {"ev":"Ctx","i":n,"ctxs":[{"p":name,"g":[S..],"l":[S..]}..],"accepted":bool,"msg":..}
//!        a fresh SideMetadataSanity fed with verify_metadata_context(p, ctx) for each entry;
//!        accepted = no call panicked.
//! S = {"n":name,"g":is_global,"oh":offset >> 20,"ol":offset & (2^20-1),"lb":log_num_of_bits,
//!      "lr":log_bytes_in_region}  (the offset is split because TLC integers are 32-bit).
//! Generator constraints (API preconditions): log_num_of_bits <= log_bytes_in_region + 3, global
//! lists contain only global specs and are identical for all policies of one row, local lists only
//! local specs, no list contains the same spec twice.

use mmtk::util::metadata::side_metadata::verif_sanity_hooks as hooks;
use mmtk::util::metadata::side_metadata::{side_metadata_offset_after, SideMetadataSpec};

/// (policy name, global specs, local specs) = one `SideMetadataContext`
type Ctx = (&'static str, Vec<SideMetadataSpec>, Vec<SideMetadataSpec>);
use std::panic::AssertUnwindSafe;
use vcommon::*;

const NAMES: [&str; 16] = [
    "s0", "s1", "s2", "s3", "s4", "s5", "s6", "s7", "s8", "s9", "s10", "s11", "s12", "s13", "s14",
    "s15",
];
const POLICIES: [&str; 4] = ["p0", "p1", "p2", "p3"];
const LOG_ARCH: usize = 47;

fn spec(name: &'static str, g: bool, off: usize, lb: usize, lr: usize) -> SideMetadataSpec {
    SideMetadataSpec { name, is_global: g, offset: off, log_num_of_bits: lb, log_bytes_in_region: lr }
}

fn sj(s: &SideMetadataSpec) -> String {
    Obj::raw("")
        .str("n", s.name)
        .bool("g", s.is_global)
        .uint("oh", (s.offset >> 20) as u64)
        .uint("ol", (s.offset & ((1 << 20) - 1)) as u64)
        .uint("lb", s.log_num_of_bits as u64)
        .uint("lr", s.log_bytes_in_region as u64)
        .finish()
}

/// Size of the metadata address range of a shape; used only to *place* the second spec of a pair
/// at interesting distances (inputs), never to decide anything.
fn shape_size(lb: usize, lr: usize) -> usize {
    1usize << (LOG_ARCH - (lr + 3 - lb))
}

struct Drv {
    trace: Trace,
    n: u64,
}

impl Drv {
    fn pair(&mut self, s1: &SideMetadataSpec, s2: &SideMetadataSpec) {
        self.n += 1;
        let r = catch(AssertUnwindSafe(|| hooks::verif_no_overlap_contiguous(s1, s2)));
        let o = match r {
            Ok(ok) => Obj::new("Pair")
                .int("i", self.n as i64)
                .json("s1", &sj(s1))
                .json("s2", &sj(s2))
                .bool("ok", ok),
            Err(msg) => Obj::new("Crash")
                .int("i", self.n as i64)
                .json("s1", &sj(s1))
                .json("s2", &sj(s2))
                .str("msg", &msg[..msg.len().min(300)]),
        };
        self.trace.push(o.finish());
    }

    fn ctx(&mut self, ctxs: &[Ctx]) {
        self.n += 1;
        let r = catch(AssertUnwindSafe(|| hooks::verif_sanity_contexts(ctxs)));
        let cj = json_array(ctxs.iter().map(|(p, g, l)| {
            Obj::raw("")
                .str("p", p)
                .json("g", &json_array(g.iter().map(sj)))
                .json("l", &json_array(l.iter().map(sj)))
                .finish()
        }));
        let msg = match &r {
            Ok(()) => String::new(),
            Err(m) => m.chars().take(60).collect(),
        };
        self.trace.push(
            Obj::new("Ctx")
                .int("i", self.n as i64)
                .json("ctxs", &cj)
                .bool("accepted", r.is_ok())
                .str("msg", &msg)
                .finish(),
        );
    }
}

fn shapes(level: u64) -> Vec<(usize, usize)> {
    // (log_num_of_bits, log_bytes_in_region), lb <= lr + 3
    let mut v = vec![(0, 3), (0, 0), (3, 0), (1, 3), (3, 15), (3, 22), (6, 3)];
    if level >= 1 {
        v.extend([(3, 8), (0, 12), (2, 4), (4, 4), (5, 8), (0, 22), (6, 12), (1, 0), (3, 3), (2, 0)]);
    }
    v
}

pub fn run() {
    std::panic::set_hook(Box::new(|_| {}));
    let out = arg_or("out", "sanity.ndjson");
    let level = arg_u64("level", 0);
    let nrand = arg_u64("random", 2000);
    let nctx = arg_u64("ctx", 1500);
    let mut rng = Rng::new(seed_from_env());
    hooks::verif_sanity_init();
    let mut d = Drv { trace: Trace::new(), n: 0 };

    // ---- 1. pair grid: shapes x shapes x base offsets x relative placements -------------------
    let shp = shapes(level);
    let bases: Vec<usize> = if level >= 1 {
        vec![0, 8, 1 << 20, (1 << 40) + 24, 1 << 44, 1 << 46, (1 << 46) + (1 << 30), 1 << 47]
    } else {
        vec![0, 8, 1 << 44, (1 << 46) + (1 << 30)]
    };
    let mut pair_rows = 0u64;
    for &(lb1, lr1) in &shp {
        for &(lb2, lr2) in &shp {
            for &o1 in &bases {
                for &g in &[true, false] {
                    if level == 0 && !g && o1 != 8 && o1 != 1 << 44 {
                        continue;
                    }
                    let z1 = shape_size(lb1, lr1);
                    let z2 = shape_size(lb2, lr2);
                    let s1 = spec("s1", g, o1, lb1, lr1);
                    let e1 = o1 + z1;
                    let mut places: Vec<i128> = vec![
                        0,
                        o1 as i128,
                        o1 as i128 + 1,
                        e1 as i128,
                        e1 as i128 - 1,
                        e1 as i128 - 8,
                        e1 as i128 + 8,
                        o1 as i128 - z2 as i128,
                        o1 as i128 - z2 as i128 + 1,
                        o1 as i128 - z2 as i128 + 8,
                        o1 as i128 - z2 as i128 - 8,
                        o1 as i128 + (z1 / 2) as i128,
                        e1 as i128 + (1i128 << 44),
                        z1 as i128,
                        z2 as i128,
                    ];
                    places.sort();
                    places.dedup();
                    for p in places {
                        if p < 0 || p >= (1i128 << 49) {
                            continue;
                        }
                        let s2 = spec("s2", g, p as usize, lb2, lr2);
                        d.pair(&s1, &s2);
                        d.pair(&s2, &s1);
                        pair_rows += 2;
                    }
                }
            }
        }
    }
    // ---- 2. random pairs ----------------------------------------------------------------------
    let all_shapes = shapes(1);
    for _ in 0..nrand {
        let (lb1, lr1) = *rng.pick(&all_shapes);
        let (lb2, lr2) = *rng.pick(&all_shapes);
        let z1 = shape_size(lb1, lr1);
        let o1 = match rng.below(4) {
            0 => 0,
            1 => (rng.below(1 << 20) as usize) * 8,
            2 => (rng.below(1 << 27) as usize) << 20,
            _ => rng.below(1 << 48) as usize,
        };
        let o2 = match rng.below(4) {
            0 => o1 + z1,
            1 => o1 + (rng.below(z1 as u64 * 2) as usize),
            2 => o1.saturating_sub(rng.below(shape_size(lb2, lr2) as u64 * 2) as usize),
            _ => rng.below(1 << 48) as usize,
        };
        let g = rng.chance(1, 2);
        d.pair(&spec("s1", g, o1, lb1, lr1), &spec("s2", g, o2, lb2, lr2));
        pair_rows += 1;
    }

    // ---- 3. spec sets checked by SideMetadataSanity::verify_metadata_context -------------------
    let mut ctx_rows = 0u64;
    for _ in 0..nctx {
        // lay out a chain of global specs and a chain of local specs the way spec_defs.rs does
        // (each after the previous one), optionally starting at a non-zero base
        let ng = rng.below(4) as usize;
        let nl = rng.range(0, 5) as usize;
        let small = rng.chance(3, 4); // small tables: within the documented size limits
        let pick_shape = |rng: &mut Rng| -> (usize, usize) {
            loop {
                let (lb, lr) = *rng.pick(&all_shapes);
                let ratio = lr + 3 - lb;
                if !small || ratio >= 3 {
                    return (lb, lr);
                }
            }
        };
        let mut name = 0usize;
        let mut off = match rng.below(3) {
            0 => 0,
            1 => (rng.below(1 << 10) as usize) * 8,
            _ => (rng.below(1 << 6) as usize) << 40,
        };
        let mut globals = vec![];
        for _ in 0..ng {
            let (lb, lr) = pick_shape(&mut rng);
            let s = spec(NAMES[name], true, off, lb, lr);
            name += 1;
            off = side_metadata_offset_after(&s);
            globals.push(s);
        }
        if rng.chance(1, 3) {
            off = (rng.below(1 << 6) as usize) << 41;
        }
        let mut locals = vec![];
        for _ in 0..nl {
            let (lb, lr) = pick_shape(&mut rng);
            let s = spec(NAMES[name], false, off, lb, lr);
            name += 1;
            off = side_metadata_offset_after(&s);
            locals.push(s);
        }
        // perturbation: move one spec onto / next to another of the same kind
        let perturb = rng.below(4);
        let list: &mut Vec<SideMetadataSpec> = if rng.chance(1, 2) { &mut globals } else { &mut locals };
        if perturb >= 2 && list.len() >= 2 {
            let i = rng.below(list.len() as u64) as usize;
            let mut j = rng.below(list.len() as u64) as usize;
            if j == i {
                j = (i + 1) % list.len();
            }
            let zj = shape_size(list[j].log_num_of_bits, list[j].log_bytes_in_region);
            let oj = list[j].offset;
            list[i].offset = match rng.below(6) {
                0 => oj,
                1 => oj + 8,
                2 => oj + zj - 8,
                3 => oj + zj / 2,
                4 => oj + zj,
                _ => oj.saturating_sub(8),
            };
        }
        // distribute the locals over 1..3 policies (a spec may be used by several policies)
        let np = rng.range(1, 3) as usize;
        let mut ctxs: Vec<Ctx> = (0..np).map(|p| (POLICIES[p], globals.clone(), vec![])).collect();
        for s in &locals {
            let p = rng.below(np as u64) as usize;
            ctxs[p].2.push(*s);
            if rng.chance(1, 4) {
                let q = (p + 1) % np;
                if q != p {
                    ctxs[q].2.push(*s);
                }
            }
        }
        d.ctx(&ctxs);
        ctx_rows += 1;
    }

    let n = d.trace.write_to(&out).expect("write trace");
    println!("rows={} pairs={} ctxs={}", n, pair_rows, ctx_rows);
}
