//! C23: drive the real `HeaderMetadataSpec` accessors (src/util/metadata/header_metadata.rs).
//!
//! A 56-byte window `buf[0..56]` is the "header neighbourhood"; the header address handed to the
//! accessors is `&buf[24]` (8-byte aligned), so bit offsets -128..127 (bytes -16..15) plus 8 guard
//! bytes on each side are visible. Rows (one per accessor call):
//!   {"ev":"Op","i":n,"off":o,"w":w,"ty":bits of T,"k":kind,"m":0|1,"mask":[..],"a":[..],"b":[..],
//!    "fk":closure kind,"pre":[56 bytes]?,"ret":{"t":"none|val|ok|err","v":[..]},"seen":[[..]..],
//!    "post":[56 bytes]}
//! All values are little-endian byte arrays (`ret.v`, `seen` have the size of T). `pre` is present
//! when the harness re-initialised the window before the call; otherwise the window still holds
//! the previous row's `post`. A panic of the accessor becomes {"ev":"Crash",...,"post":[..]}.
//! Nothing is judged here: arguments equal to "the current value" are obtained with the real
//! `load_atomic` accessor, the way a client would.

use mmtk::util::metadata::header_metadata::HeaderMetadataSpec;
use mmtk::util::metadata::MetadataValue;
use mmtk::util::Address;
use std::cell::RefCell;
use std::panic::AssertUnwindSafe;
use std::sync::atomic::Ordering;
use vcommon::*;

const W: usize = 56;
const HI: usize = 24;

#[repr(align(64))]
struct Buf([u8; 64]);

trait Val: MetadataValue {
    fn from_le(b: &[u8]) -> Self;
    fn to_le(self) -> Vec<u8>;
}
macro_rules! impl_val {
    ($t:ty) => {
        impl Val for $t {
            fn from_le(b: &[u8]) -> Self {
                let mut x = [0u8; std::mem::size_of::<$t>()];
                let n = b.len().min(x.len());
                x[..n].copy_from_slice(&b[..n]);
                <$t>::from_le_bytes(x)
            }
            fn to_le(self) -> Vec<u8> {
                self.to_le_bytes().to_vec()
            }
        }
    };
}
impl_val!(u8);
impl_val!(u16);
impl_val!(u32);
impl_val!(u64);
impl_val!(usize);

#[derive(Clone, Debug)]
struct Op {
    k: &'static str, // load load_atomic store store_atomic cas add sub and or upd
    a: Vec<u8>,
    b: Vec<u8>,
    mask: Option<Vec<u8>>,
    fk: &'static str, // for upd: none const add cond
}

enum Ret {
    None,
    Val(Vec<u8>),
    Ok(Vec<u8>),
    Err(Vec<u8>),
}

fn bytes_json(b: &[u8]) -> String {
    json_ints(b.iter().map(|x| *x as i64))
}

/// Calls the accessor named by `op.k` with T as the value type.
fn call<T: Val>(spec: &HeaderMetadataSpec, h: Address, op: &Op, seen: &RefCell<Vec<Vec<u8>>>) -> Ret {
    let o = Ordering::SeqCst;
    let a = T::from_le(&op.a);
    let b = T::from_le(&op.b);
    let mask: Option<T> = op.mask.as_ref().map(|m| T::from_le(m));
    match op.k {
        "load" => Ret::Val(unsafe { spec.load::<T>(h, mask) }.to_le()),
        "load_atomic" => Ret::Val(spec.load_atomic::<T>(h, mask, o).to_le()),
        "store" => {
            unsafe { spec.store::<T>(h, a, mask) };
            Ret::None
        }
        "store_atomic" => {
            spec.store_atomic::<T>(h, a, mask, o);
            Ret::None
        }
        "cas" => match spec.compare_exchange::<T>(h, a, b, mask, o, o) {
            Ok(v) => Ret::Ok(v.to_le()),
            Err(v) => Ret::Err(v.to_le()),
        },
        "add" => Ret::Val(spec.fetch_add::<T>(h, a, o).to_le()),
        "sub" => Ret::Val(spec.fetch_sub::<T>(h, a, o).to_le()),
        "and" => Ret::Val(spec.fetch_and::<T>(h, a, o).to_le()),
        "or" => Ret::Val(spec.fetch_or::<T>(h, a, o).to_le()),
        "upd" => {
            // The closure is the *input* of fetch_update; the trace names it (fk, a, b) and the
            // specification interprets that name. Values it is called with are recorded.
            let fk = op.fk;
            let fmax: T = if spec.num_of_bits < 8 {
                T::from_le(&[((1u16 << spec.num_of_bits) - 1) as u8])
            } else {
                T::from_le(&[0xff; 8])
            };
            let f = |x: T| -> Option<T> {
                seen.borrow_mut().push(x.to_le());
                match fk {
                    "none" => None,
                    "const" => Some(a),
                    "add" => Some(x.wrapping_add(&a).bitand(fmax)),
                    _ => {
                        if x == a {
                            None
                        } else {
                            Some(b)
                        }
                    }
                }
            };
            match spec.fetch_update::<T, _>(h, o, o, f) {
                Ok(v) => Ret::Ok(v.to_le()),
                Err(v) => Ret::Err(v.to_le()),
            }
        }
        _ => unreachable!(),
    }
}

struct Drv {
    buf: Box<Buf>,
    trace: Trace,
    n: u64,
    fresh: bool, // window was re-initialised since the last row
}

impl Drv {
    fn new() -> Self {
        Drv { buf: Box::new(Buf([0; 64])), trace: Trace::new(), n: 0, fresh: true }
    }
    fn header(&self) -> Address {
        Address::from_ptr(&self.buf.0[HI] as *const u8)
    }
    fn window(&self) -> Vec<u8> {
        // volatile-ish read of the raw bytes after the accessor returned
        let p = self.buf.0.as_ptr();
        (0..W).map(|i| unsafe { std::ptr::read_volatile(p.add(i)) }).collect()
    }
    fn fill(&mut self, f: impl Fn(usize) -> u8) {
        for i in 0..64 {
            self.buf.0[i] = f(i);
        }
        self.fresh = true;
    }
    /// Reads the field through the real accessor (used to build "expected == current" arguments).
    fn current(&self, off: isize, w: usize, ty: usize, mask: &Option<Vec<u8>>) -> Vec<u8> {
        let op = Op { k: "load_atomic", a: vec![], b: vec![], mask: mask.clone(), fk: "" };
        let spec = HeaderMetadataSpec { bit_offset: off, num_of_bits: w };
        let seen = RefCell::new(vec![]);
        let h = self.header();
        let r = catch(AssertUnwindSafe(|| dispatch(&spec, h, ty, &op, &seen)));
        match r {
            Ok(Ret::Val(v)) => v[..nbytes(w)].to_vec(),
            _ => vec![0; nbytes(w)],
        }
    }
    fn op(&mut self, off: isize, w: usize, ty: usize, op: &Op) {
        self.n += 1;
        let spec = HeaderMetadataSpec { bit_offset: off, num_of_bits: w };
        let pre = if self.fresh { Some(self.window()) } else { None };
        self.fresh = false;
        let seen = RefCell::new(vec![]);
        let h = self.header();
        let r = catch(AssertUnwindSafe(|| dispatch(&spec, h, ty, op, &seen)));
        let post = self.window();
        let full = vec![0xffu8; nbytes(w)];
        let mut o = Obj::new(if r.is_ok() { "Op" } else { "Crash" })
            .int("i", self.n as i64)
            .int("off", off as i64)
            .int("w", w as i64)
            .int("ty", ty as i64)
            .str("k", op.k)
            .int("m", op.mask.is_some() as i64)
            .json("mask", &bytes_json(op.mask.as_ref().unwrap_or(&full)))
            .json("a", &bytes_json(&op.a))
            .json("b", &bytes_json(&op.b))
            .str("fk", op.fk);
        if let Some(p) = pre {
            o = o.json("pre", &bytes_json(&p));
        }
        match r {
            Ok(ret) => {
                let (t, v) = match ret {
                    Ret::None => ("none", vec![]),
                    Ret::Val(v) => ("val", v),
                    Ret::Ok(v) => ("ok", v),
                    Ret::Err(v) => ("err", v),
                };
                let rj = Obj::raw("").str("t", t).json("v", &bytes_json(&v)).finish();
                o = o.json("ret", &rj).json(
                    "seen",
                    &json_array(seen.borrow().iter().map(|s| bytes_json(s))),
                );
            }
            Err(msg) => {
                o = o.str("msg", &msg[..msg.len().min(300)]);
            }
        }
        self.trace.push(o.json("post", &bytes_json(&post)).finish());
    }
}

fn dispatch(spec: &HeaderMetadataSpec, h: Address, ty: usize, op: &Op, seen: &RefCell<Vec<Vec<u8>>>) -> Ret {
    match ty {
        8 => call::<u8>(spec, h, op, seen),
        16 => call::<u16>(spec, h, op, seen),
        32 => call::<u32>(spec, h, op, seen),
        64 => call::<u64>(spec, h, op, seen),
        0 => call::<usize>(spec, h, op, seen),
        _ => unreachable!(),
    }
}

fn nbytes(w: usize) -> usize {
    if w < 8 {
        1
    } else {
        w / 8
    }
}

/// The natural value type of a field (bits of T): u8 for 1..8 bits, else the field width.
fn nat_ty(w: usize) -> usize {
    if w < 8 {
        8
    } else {
        w
    }
}

/// Value classes for a field of `w` bits, as LE bytes: 0, 1, max, alternating, random.
fn classes(w: usize, rng: &mut Rng, level: u64) -> Vec<Vec<u8>> {
    let n = nbytes(w);
    let trunc = |mut v: Vec<u8>| {
        if w < 8 {
            v[0] &= ((1u16 << w) - 1) as u8;
        }
        v
    };
    let mut one = vec![0u8; n];
    one[0] = 1;
    let rnd: Vec<u8> = (0..n).map(|_| rng.below(256) as u8).collect();
    let mut out = vec![vec![0u8; n], one, trunc(vec![0xff; n]), trunc(vec![0xaa; n]), trunc(rnd)];
    if level == 0 && w > 1 {
        out.remove(1); // the quick grid does without the value 1
    }
    out.dedup();
    out
}

fn and_bytes(a: &[u8], m: &Option<Vec<u8>>) -> Vec<u8> {
    match m {
        None => a.to_vec(),
        Some(m) => a.iter().zip(m.iter()).map(|(x, y)| x & y).collect(),
    }
}

fn masks(w: usize, rng: &mut Rng, level: u64) -> Vec<Option<Vec<u8>>> {
    if w < 8 {
        return vec![None];
    }
    let n = nbytes(w);
    let mut allbut2 = vec![0xffu8; n];
    allbut2[0] = 0xfc; // the forwarding-pointer use: exclude the two forwarding bits
    let rnd: Vec<u8> = (0..n).map(|_| rng.below(256) as u8).collect();
    let mut v = vec![None, Some(allbut2), Some(rnd)];
    if level >= 1 {
        v.push(Some(vec![0xff; n]));
        v.push(Some(vec![0x0f; n]));
    }
    v
}

/// All single operations worth trying on field (off, w) in the current window contents.
fn single_ops(d: &Drv, off: isize, w: usize, rng: &mut Rng, level: u64) -> Vec<Op> {
    let mut ops = vec![];
    let cls = classes(w, rng, level);
    let mk = |k: &'static str, a: &[u8], b: &[u8], m: &Option<Vec<u8>>, fk: &'static str| Op {
        k,
        a: a.to_vec(),
        b: b.to_vec(),
        mask: m.clone(),
        fk,
    };
    for m in masks(w, rng, level) {
        ops.push(mk("load", &[], &[], &m, ""));
        ops.push(mk("load_atomic", &[], &[], &m, ""));
        let cur = d.current(off, w, nat_ty(w), &m);
        for v in &cls {
            ops.push(mk("store", v, &[], &m, ""));
            ops.push(mk("store_atomic", v, &[], &m, ""));
            // compare-exchange expecting the current value (arguments stay inside the mask)
            ops.push(mk("cas", &cur, &and_bytes(v, &m), &m, ""));
            // compare-exchange expecting some class value (mostly a failing one)
            ops.push(mk("cas", &and_bytes(v, &m), &and_bytes(&cls[cls.len() - 1], &m), &m, ""));
        }
    }
    let cur = d.current(off, w, nat_ty(w), &None);
    for v in &cls {
        for k in ["add", "sub", "and", "or"] {
            ops.push(mk(k, v, &[], &None, ""));
        }
        ops.push(mk("upd", v, &[], &None, "const"));
        ops.push(mk("upd", v, &[], &None, "add"));
        ops.push(mk("upd", &cur, v, &None, "cond"));
        ops.push(mk("upd", v, &cur, &None, "cond"));
    }
    ops.push(mk("upd", &[], &[], &None, "none"));
    ops
}

fn sub_byte_specs(bytes: &[isize]) -> Vec<(isize, usize)> {
    let mut v = vec![];
    for &b in bytes {
        for w in 1..=7usize {
            for s in 0..=(8 - w) as isize {
                v.push((b * 8 + s, w));
            }
        }
    }
    v
}

fn aligned_specs() -> Vec<(isize, usize)> {
    let mut v = vec![];
    for w in [8usize, 16, 32, 64] {
        let mut off = -128isize;
        while off + w as isize <= 128 {
            v.push((off, w));
            off += w as isize;
        }
    }
    v
}

fn background(kind: u64, salt: u64) -> impl Fn(usize) -> u8 {
    move |i| match kind {
        0 => 0x00,
        1 => 0xff,
        2 => 0xa5,
        _ => {
            let mut r = Rng::new(salt.wrapping_mul(1315423911).wrapping_add(i as u64));
            r.below(256) as u8
        }
    }
}

pub fn run() {
    std::panic::set_hook(Box::new(|_| {}));
    let out = arg_or("out", "header.ndjson");
    let level = arg_u64("level", 0);
    let nhist = arg_u64("hist", 200);
    let hlen = arg_u64("hlen", 40);
    let seqlen = arg_u64("seqlen", 2);
    let mut rng = Rng::new(seed_from_env());
    let mut d = Drv::new();

    // ---- 1. exhaustive grid: specs x backgrounds x single operations -------------------------
    let bytes: Vec<isize> = if level >= 1 { (-16..=15).collect() } else { vec![-16, -1, 0] };
    let mut specs = sub_byte_specs(&bytes);
    specs.extend(aligned_specs());
    let nspecs = specs.len();
    let mut grid_rows = 0u64;
    for (si, &(off, w)) in specs.iter().enumerate() {
        for bg in 0..4u64 {
            // every spec gets the random background and one of the three others; the thorough
            // grid gives all four to the specs of six header bytes and to all aligned specs
            let all_bgs = level >= 1
                && (w >= 8 || [-16isize, -9, -1, 0, 7, 15].contains(&(off >> 3)));
            if !all_bgs && bg != 3 && (si as u64 + bg) % 3 != 0 {
                continue;
            }
            let salt = rng.next();
            d.fill(background(bg, salt));
            let ops = single_ops(&d, off, w, &mut rng, level);
            for op in &ops {
                d.fill(background(bg, salt));
                d.op(off, w, nat_ty(w), op);
                grid_rows += 1;
            }
        }
    }
    // value types other than the natural one: sub-byte fields accessed as u64/usize, 64-bit as usize
    for &(off, w) in &[(3isize, 2usize), (-5, 3), (64, 64), (-64, 64), (17, 5)] {
        let salt = rng.next();
        d.fill(background(3, salt));
        let ops = single_ops(&d, off, w, &mut rng, 0);
        for op in &ops {
            d.fill(background(3, salt));
            d.op(off, w, if w < 8 { 64 } else { 0 }, op);
            grid_rows += 1;
        }
    }

    // ---- 2. all operation sequences of length <= seqlen over neighbouring fields -------------
    // three fields sharing byte `b` plus the byte-wide field containing them
    let mut seq_rows = 0u64;
    let seq_bytes: &[isize] = if level >= 1 { &[0, -1] } else { &[-1] };
    for &b in seq_bytes {
        let fields = [(b * 8, 2usize), (b * 8 + 2, 3), (b * 8 + 5, 3), (b * 8, 8)];
        let mut prims: Vec<(isize, usize, Op)> = vec![];
        for &(off, w) in &fields {
            let cls = classes(w, &mut rng, 1);
            let mx = cls[2.min(cls.len() - 1)].clone();
            let alt = cls[3.min(cls.len() - 1)].clone();
            let one = cls[1].clone();
            let mk = |k: &'static str, a: &[u8], b: &[u8], fk: &'static str| Op {
                k,
                a: a.to_vec(),
                b: b.to_vec(),
                mask: None,
                fk,
            };
            prims.push((off, w, mk("store_atomic", &mx, &[], "")));
            prims.push((off, w, mk("store", &[0], &[], "")));
            prims.push((off, w, mk("cas", &mx, &alt, "")));
            prims.push((off, w, mk("cas", &alt, &one, "")));
            prims.push((off, w, mk("add", &one, &[], "")));
            prims.push((off, w, mk("sub", &one, &[], "")));
            prims.push((off, w, mk("and", &alt, &[], "")));
            prims.push((off, w, mk("or", &alt, &[], "")));
            prims.push((off, w, mk("upd", &one, &[], "add")));
            prims.push((off, w, mk("load_atomic", &[], &[], "")));
        }
        // all sequences of length 2 over the 40 primitives; for longer sequences every second
        // primitive (store_atomic max, cas max->alt, add, and, fetch_update per field)
        for len in 2..=seqlen {
            let set: Vec<&(isize, usize, Op)> = if len == 2 {
                prims.iter().collect()
            } else {
                prims.iter().step_by(2).collect()
            };
            let np = set.len();
            let total = (np as u64).pow(len as u32);
            for code in 0..total {
                let salt = 7 + (code % 5);
                d.fill(background(if code % 2 == 0 { 2 } else { 3 }, salt));
                let mut c = code;
                for _ in 0..len {
                    let (off, w, op) = set[(c % np as u64) as usize];
                    c /= np as u64;
                    d.op(*off, *w, nat_ty(*w), op);
                    seq_rows += 1;
                }
            }
        }
    }

    // ---- 3. random histories on a persistent window -------------------------------------------
    let all_bytes: Vec<isize> = (-16..=15).collect();
    let mut all = sub_byte_specs(&all_bytes);
    let al = aligned_specs();
    let mut hist_rows = 0u64;
    for hno in 0..nhist {
        let salt = rng.next();
        d.fill(background(hno % 4, salt));
        for _ in 0..hlen {
            // half of the operations go to byte-or-wider fields
            let (off, w) = if rng.chance(1, 2) { *rng.pick(&al) } else { *rng.pick(&all) };
            let ops = single_ops(&d, off, w, &mut rng, 1);
            let op = rng.pick(&ops).clone();
            d.op(off, w, nat_ty(w), &op);
            hist_rows += 1;
        }
    }
    all.clear();

    let n = d.trace.write_to(&out).expect("write trace");
    println!(
        "rows={} specs={} grid={} seq={} hist={} histories={}",
        n, nspecs, grid_rows, seq_rows, hist_rows, nhist
    );
}
