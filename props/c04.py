"""C04 — non-moving, immortal and pinned objects never move; immortal ones never die."""
from props import heapcommon as hc

SPEC_DIR = "heap"
TRACE_SPEC = ("HeapTrace.tla", "HeapTrace.cfg")
META = {
    "level": "model_checking",
    "text": "Design level: Heap.tla's NonMovingStay invariant with a collector mutant that "
            "relocates a non-moving object (rejected by TLC). Conformance: generated programs "
            "allocate with Immortal, Los and NonMoving semantics (and pin objects in "
            "object_pinning builds: pin_object / unpin_object on young and old objects where the policy "
            "supports the call) under moving plans whose collections do move the "
            "other objects (the evidence counts moved objects); after every collection TLC checks "
            "on HeapTrace.tla that each such reachable object is at its allocation address and "
            "that every object ever allocated in a never-collected space - reachable or not - is "
            "still intact (id and payload hash) at its address.",
    "note": "Trusted: TLC, ShadowVM binding/walker. Plans/semantics with recorded defects "
            "(KNOWN_FINDINGS.json: NonMoving under MarkCompact/ConcurrentImmix, Immortal/NonMoving "
            "referrers under Compressor) are exercised by dedicated probe runs only.",
    "technique": "TLA+ spec (Heap.tla) model-checked with TLC incl. mutant; traces of real "
                 "collections validated with TLC against HeapTrace.tla",
}
PREFIXES = ("C04:",)


def run(ctx):
    hc.design_mc(ctx)
    st = hc.execute(ctx, hc.matrix(ctx.tier, focus="nonmoving"), PREFIXES)
    ctx.cov.update({"driver": st})
    ctx.cov["rule"] = ("one trace = one gcdrive process; non-trivial = collections with survivors in "
                       "which other objects moved while non-moving ones had to stay")
