"""C39 — option setting is all-or-nothing and parsers match their grammar.
Spec: spec/options/Options.tla (option table, documented grammars as recursive operators over
character-code sequences, machine words as decimal digit sequences with explicit overflow
detection, set_from_string / set_bulk_from_string / read_env_var_settings contracts).
MC: OptionsParsersMC.tla (all strings over small alphabets: digit arithmetic against native ints with
a 16-bit word so that the overflow boundary is inside the explored strings, every grammar written
twice, Parse(Show(v)) = v), OptionsSetMC.tla (the option table as a state machine: AllValid,
AllOrNothing, BulkIsPrefix), a hand-derived table (table.ndjson, 64-bit boundaries) and mutants.
Binding: harness/d_options calls the real Options::set_from_string / set_bulk_from_string /
read_env_var_settings and the public FromStr parsers on corpora, exhaustive short strings and
grammar-directed random strings, logging input, result and the dump of all 28 option values
before/after; Trace_Options.tla validates every row."""
import json
import os
import re
from concurrent.futures import ThreadPoolExecutor

import vf

META = {
    "level": "model_checking",
    "text": "TLC checks the TLA+ parser operators on all strings up to length 4 (5 thorough) over "
            "three 8-9 symbol alphabets (digit-sequence arithmetic vs native integers incl. the "
            "overflow boundary of a 16-bit word, two formulations of every grammar, print/parse "
            "round trips), the option table as a state machine (AllValid, AllOrNothing, "
            "BulkIsPrefix), a hand-derived table with the 64-bit boundaries, and rejects 5 mutants. "
            "The real Options code is then run on a value corpus per option (fresh and dirty "
            "Options), on all strings up to length 4 (5 thorough) behind 18 parser prefixes, on "
            "grammar-directed random values, bulk strings and MMTK_* environment variables; TLC "
            "validates every recorded call (result + all 28 option values before/after) against "
            "the specification. Exhaustive small scope + boundary corpus + random is the right "
            "level for pure string-to-value functions.",
    "note": "Trusted: TLC, the harness' formatting of values (usize as decimal digits, f64 via "
            "Rust's shortest round-trip {:e}). f64 literals with more than 15 significant digits "
            "or exponents outside +-300 are only checked for grammar and atomicity, not for value "
            "or validity. perf_counter builds are not available: the three perf options are "
            "checked with their validators constantly false; PerfEventOptions::from_str is "
            "checked directly. Bulk separators: ASCII whitespace and commas only.",
    "technique": "TLA+ spec (Options.tla) model-checked with TLC; recorded calls of the real code "
                 "validated row by row with TLC (Trace_Options.tla)",
}
SPEC_DIR = "options"
TRACE_SPEC = ("Trace_Options.tla", "Trace_Options.cfg")

KEY_DELEG = "gc_trigger:Delegated-prefix-accepted"
KEY_ALLIN = "thread_affinity:AllInSet-cores-not-validated"
CLASS_KEY = {
    "delegated-prefix": KEY_DELEG,
    "allinset-unchecked": KEY_ALLIN,
    "delegated-prefix+allinset-unchecked": KEY_DELEG + "+" + KEY_ALLIN,
}


def _row_key(row, cls):
    if cls in CLASS_KEY:
        return CLASS_KEY[cls]
    ev = row.get("ev", "?")
    tail = ":panic" if ("panic" in row or (ev == "EnvRead" and row.get("ret") == "panic")) else ""
    if ev == "Set":
        n = row.get("n", "?")
        return "set:%s%s" % (n if re.fullmatch(r"[a-z_]+", n or "") else "<unknown-name>", tail)
    if ev == "Parse":
        return "parse:%s%s" % (row.get("t", "?"), tail)
    return ev.lower() + tail


def _expected_states(alpha, maxlen):
    return sum(alpha ** i for i in range(maxlen + 1))


class _Jobs:
    """At most 4 single-worker TLC processes at a time."""

    def __init__(self, ctx, sd):
        self.ctx, self.sd = ctx, sd
        self.pool = ThreadPoolExecutor(max_workers=4)
        self.futs = []

    def submit(self, kind, module, cfg, name, **kw):
        def job():
            env = kw.get("env")
            jvm = vf.TRACE_JVM if kind in ("trace", "table", "corrupt") else ("-Xss1g",)   # deep recursive operators
            rc, out, wall = self.ctx._tlc(self.sd, module, cfg, name, kw.get("workers", 1),
                                          kw.get("timeout", 1500), jvm=jvm, env=env,
                                          xmx=kw.get("xmx", "4g"))
            return rc, out, wall
        self.futs.append((kind, module, cfg, name, kw, self.pool.submit(job)))

    def results(self):
        for kind, module, cfg, name, kw, fut in self.futs:
            rc, out, wall = fut.result()
            yield kind, module, cfg, name, kw, rc, out, wall
        self.futs = []


def _mc_result(ctx, name, rc, out, wall, expect_violation, expect_states=None):
    st = ctx._stats(out)
    violated = bool(re.search(r"Error: (Invariant|Action property|Temporal properties|Deadlock|"
                              r"Assumption|The postcondition|Evaluating)", out)) or "is violated" in out
    finished = "Model checking completed" in out or "Finished in" in out
    vf.log("TLC %s: %d distinct / %d generated, depth %d, %.1fs%s" % (
        name, st["distinct"], st["generated"], st["depth"], wall, " VIOLATED" if violated else ""))
    if rc == -9:
        raise vf.ToolError("TLC timed out on %s" % name)
    run = {"name": name, "states": st["distinct"], "transitions": st["generated"],
           "depth": st["depth"], "wall_s": round(wall, 1)}
    if expect_violation:
        if not violated:
            raise vf.ToolError("mutant %s was NOT rejected by TLC: the property is vacuous in the model" % name)
        m = re.search(r"Error: (Invariant|Action property) (\w+) is violated", out)
        run["mutant_rejected"] = True
        run["violated"] = m.group(2) if m else "?"
    else:
        if violated or not finished or rc != 0:
            print(out[-4000:])
            raise vf.ToolError("TLC reports an error on the specification itself (%s); see %s/tlc_%s.log"
                               % (name, ctx.work, name))
        if expect_states is not None and st["distinct"] != expect_states:
            raise vf.ToolError("%s explored %d states, expected %d (vacuous or truncated model)"
                               % (name, st["distinct"], expect_states))
        ctx.cov["states"] += st["distinct"]
        ctx.cov["transitions"] += st["generated"]
    ctx.cov["mc_runs"].append(run)
    return run


def _rows_result(ctx, name, path, rc, out, wall):
    """Row-mode post-processing of one trace-validation run: returns (nrows, {line: class})."""
    nlines = sum(1 for _ in open(path))
    if rc == -9:
        raise vf.ToolError("TLC timed out validating %s" % path)
    if "TRACE_REJECTED" in out or rc != 0 or "Model checking completed" not in out:
        print(out[-4000:])
        raise vf.ToolError("TLC failed while validating %s (rc=%s); see %s/tlc_%s.log" % (path, rc, ctx.work, name))
    bad = sorted({int(x) for x in re.findall(r"ROW_REJECTED l=(\d+)", out)})
    cls = {int(i): c for i, c in re.findall(r"ROW_CLASS id=(\d+) class=([\w+-]+)", out)}
    vf.log("TLC trace %s: %d rows, %d rejected, %.1fs" % (name, nlines, len(bad), wall))
    return nlines, bad, cls


def run(ctx):
    sd = os.path.join(vf.SPEC, SPEC_DIR)
    quick = ctx.tier == "quick"
    # VERIF_C39_EXE: a d_options binary built elsewhere (mutation experiments on a scratch copy of
    # /repo, so that other people's builds against /repo are not disturbed)
    exe = os.environ.get("VERIF_C39_EXE") or ctx.build("d_options")

    # ---------------------------------------------------------------- the real code
    maxlen = 4 if quick else 5
    nrand = 2000 if quick else 30000
    out = os.path.join(ctx.work, "options.ndjson")
    rc, o = ctx.run([exe, "--out", out, "--maxlen", str(maxlen), "--random", str(nrand)] +
                    (["--quick"] if quick else []), timeout=1200)
    if rc != 0:
        if rc < 0 or "panicked" in o or rc in (101, 134, 139):
            ctx.violation("driver-crash", "the options driver died while calling the code under test "
                          "(rc=%s): %s" % (rc, o[-600:]))
            return
        raise vf.ToolError("d_options failed: rc=%s\n%s" % (rc, o[-2000:]))
    m = re.search(r"d_options: (\d+) rows \(([^)]*)\) ncpu=(\d+)", o)
    if not m:
        raise vf.ToolError("d_options: no summary line\n" + o[-1000:])
    counts = dict(kv.split("=") for kv in m.group(2).split())
    lines = open(out).read().splitlines()
    per = 18000 if quick else 36000
    parts = []
    for i in range(0, len(lines), per):
        p = os.path.join(ctx.work, "opt_%02d.ndjson" % (i // per))
        with open(p, "w") as f:
            f.write("\n".join(lines[i:i + per]) + "\n")
        parts.append(p)
    # binding demonstration input: corrupt accepted-looking rows (flip the result / touch another
    # option in the after-dump); every corrupted row must be rejected with class "other"
    corrupt = os.path.join(ctx.work, "corrupt.ndjson")
    ncorrupt = 0
    with open(corrupt, "w") as f:
        for ln in lines:
            if ncorrupt >= (300 if quick else 1500):
                break
            if not ln.startswith('{"ev":"Set"'):
                continue
            r = json.loads(ln)
            if "Delegated" in r["v"] or "AllInSet" in r["v"] or r["n"] == "nursery":
                continue
            if ncorrupt % 2 == 0:
                r["ret"] = not r["ret"]
            else:
                a = list(r["a"])
                a[2] = not a[2]          # use_short_stack_scans changed behind the caller's back
                r["a"] = a
            f.write(json.dumps(r, separators=(",", ":")) + "\n")
            ncorrupt += 1

    # ---------------------------------------------------------------- TLC jobs
    jobs = _Jobs(ctx, sd)
    sfx = "" if quick else "_t"
    L = 4 if quick else 5
    for cfg, alpha in (("MC_OptionsParsers", 9), ("MC_OptionsParsers_float", 9), ("MC_OptionsParsers_perf", 8)):
        jobs.submit("mc", "OptionsParsersMC.tla", cfg + sfx + ".cfg", cfg + sfx,
                    expect_states=_expected_states(alpha, L))
    jobs.submit("mc", "OptionsSetMC.tla", "MC_OptionsSet.cfg", "MC_OptionsSet")
    mutants = [("OptionsParsersMC.tla", "MC_OptionsParsers_mutant_wrap"),
               ("OptionsParsersMC.tla", "MC_OptionsParsers_mutant_range"),
               ("OptionsSetMC.tla", "MC_OptionsSet_mutant_novalidate")]
    if not quick:
        mutants += [("OptionsParsersMC.tla", "MC_OptionsParsers_mutant_anchor"),
                    ("OptionsSetMC.tla", "MC_OptionsSet_mutant_bulkgoeson")]
    for mod, cfg in mutants:
        jobs.submit("mutant", mod, cfg + ".cfg", cfg)
    jobs.submit("table", TRACE_SPEC[0], TRACE_SPEC[1], "table",
                env={"TRACE": os.path.join(sd, "table.ndjson")})
    if not quick:
        jobs.submit("corrupt", TRACE_SPEC[0], TRACE_SPEC[1], "corrupt", env={"TRACE": corrupt})
    for p in parts:
        jobs.submit("trace", TRACE_SPEC[0], TRACE_SPEC[1],
                    "trace_" + os.path.splitext(os.path.basename(p))[0], env={"TRACE": p}, path=p)

    rejected = []        # (line text, class)
    validated = 0
    for kind, module, cfg, name, kw, rc, o2, wall in jobs.results():
        if kind == "mc":
            _mc_result(ctx, name, rc, o2, wall, False, kw.get("expect_states"))
        elif kind == "mutant":
            _mc_result(ctx, name, rc, o2, wall, True)
        elif kind == "table":
            n, bad, _ = _rows_result(ctx, name, kw["env"]["TRACE"], rc, o2, wall)
            if bad:
                raise vf.ToolError("Options.tla disagrees with the hand-derived table.ndjson at rows %s" % bad[:10])
            ctx.cov["table_rows_checked"] = n
        elif kind == "corrupt":
            n, bad, cls = _rows_result(ctx, name, corrupt, rc, o2, wall)
            if len(bad) != n or any(c != "other" for c in cls.values()):
                raise vf.ToolError("binding demonstration failed: %d of %d corrupted rows rejected" % (len(bad), n))
            ctx.cov["binding_demo"] = "%d/%d corrupted rows (flipped result / foreign option changed) rejected" % (len(bad), n)
        else:
            path = kw["path"]
            n, bad, cls = _rows_result(ctx, name, path, rc, o2, wall)
            plines = open(path).read().splitlines()
            for b in bad:
                row = plines[b - 1]
                try:
                    rid = json.loads(row).get("id")
                except ValueError:
                    rid = None
                rejected.append((row, cls.get(rid, "other")))
            validated += n - len(bad)
            ctx.cov["trace_runs"].append({"name": name, "accepted": not bad, "events": n,
                                          "wall_s": round(wall, 1), "rejected_rows": len(bad)})
    if not quick:
        # the whole corpus of the option-table state machine: one 4-worker run on its own
        rc, o2, wall = ctx._tlc(sd, "OptionsSetMC.tla", "MC_OptionsSet_t.cfg", "MC_OptionsSet_t", 4, 2400,
                                jvm=("-Xss1g",), xmx="6g")
        _mc_result(ctx, "MC_OptionsSet_t", rc, o2, wall, False)

    # ---------------------------------------------------------------- findings
    by_key = {}
    for row, cls in rejected:
        try:
            r = json.loads(row)
        except ValueError:
            r = {}
        by_key.setdefault(_row_key(r, cls), []).append(row)
    for k, rows in sorted(by_key.items()):
        tmp = os.path.join(ctx.work, "rejected_%s.ndjson" % re.sub(r"\W+", "_", k)[:80])
        with open(tmp, "w") as f:
            f.write("\n".join(rows[:50]) + "\n")
        r0 = json.loads(rows[0])
        shown = {kk: r0.get(kk) for kk in ("ev", "n", "t", "v", "s", "ret", "ok", "panic", "msg") if kk in r0}
        ctx.violation(k, "real options code deviates from Options.tla (%d row(s)); first: %s"
                      % (len(rows), json.dumps(shown)[:400]), tmp, extra=rows[0][:1500])
    ctx.cov["traces_validated_against_impl"] += validated

    # ---------------------------------------------------------------- evidence
    ctx.sample_lines(out, 1, maxlen=900)
    for ln in lines:
        if ln.startswith('{"ev":"Bulk"') and '"ret":"true"' in ln and '=' in ln[:80]:
            ctx.sample(ln[:700])
            break
    nontrivial = sum(1 for ln in lines if ln.startswith('{"ev":"Set"') and '"ret":true' in ln)
    ctx.cov["rows"] = {k: int(v) for k, v in counts.items()}
    ctx.cov["rows_total"] = len(lines)
    ctx.cov["rejected_rows_by_key"] = {k: len(v) for k, v in by_key.items()}
    ctx.cov["distinct_nontrivial"] = nontrivial
    ctx.cov["distinct_nontrivial_rule"] = "Set rows in which the real set_from_string returned true (a value was parsed, validated and stored)"
    ctx.cov["exhaustive"] = True
    ctx.cov["ncpu"] = int(m.group(3))
    ctx.cov["rule"] = ("every option name x its value corpus (valid boundary values, malformed, overflowing, "
                       "unicode) on fresh and dirty Options; all strings of length <= %d over 9-symbol "
                       "alphabets behind 18 (option, prefix) contexts through set_from_string and FromStr; "
                       "%d grammar-directed random/mutated values; all bulk strings of length <= %d over "
                       "{key,=,1,',',' ',unknown-key} plus %d random bulk strings; %d MMTK_* environment "
                       "reads; each row is one call of the real code with the dump of all 28 options "
                       "before and after" % (maxlen, nrand, min(maxlen, 5), nrand // 2, nrand // 4))
    ctx.assumptions += [
        "READING gc_trigger: the third alternative is exactly the word Delegated (the other two are anchored regexes)",
        "READING thread_affinity: AffinityKind::validate is documented to check the cores of every list, whichever kind",
        "READING bulk: pairs are processed strictly left to right (a failing pair hides an unknown key to its right)",
        "cpu ranges need start < end (the parser's own error message documents it); a-a is rejected",
        "integers, bool and f64 follow the grammar documented for Rust's FromStr (optional '+' for unsigned types)",
        "f64 literals outside the exactly decidable class (<= 15 significant digits, |exp10| <= 300) constrain only grammar and atomicity",
        "read_env_var_settings is exercised with ASCII variable names whose lower-cased option names are pairwise distinct",
        "features perf_counter / work_packet_stats are off (validators of the three perf options are constantly false); target_os = linux",
    ]
