"""C02 — new allocations never overlap live objects."""
from props import heapcommon as hc

SPEC_DIR = "heap"
TRACE_SPEC = ("HeapTrace.tla", "HeapTrace.cfg")
META = {
    "level": "model_checking",
    "text": "Design level: Heap.tla's NoOverlap invariant is model-checked for all programs over a "
            "few objects and memory cells; an allocator mutant that may hand out an occupied "
            "interval is rejected by TLC. Conformance: every allocation of every generated program "
            "on the real MMTk (all plans, mixed sizes from 24 bytes to multi-page large objects, "
            "several logical mutators with their own thread-local buffers, small heaps that force "
            "allocation-triggered collections) is checked by TLC on HeapTrace.tla against the "
            "intervals of every object that survived the last collection (taken from the heap "
            "walker's report) and of every allocation since; survivors of each collection must be "
            "pairwise disjoint as well.",
    "note": "Trusted: TLC, the ShadowVM binding/walker. Mutators are logical (one OS thread), so "
            "truly parallel allocation slow paths are covered only by C19/C28-level checks. An "
            "object that was reachable at the last collection blocks its interval until the next "
            "collection even if dropped since (sound: nothing is reclaimed between collections).",
    "technique": "TLA+ spec (Heap.tla) model-checked with TLC incl. mutant; allocation/collection "
                 "traces of the real MMTk validated with TLC against HeapTrace.tla",
}
PREFIXES = ("C02:",)


def run(ctx):
    hc.design_mc(ctx)
    st = hc.execute(ctx, hc.matrix(ctx.tier, focus="alloc"), PREFIXES)
    ctx.cov.update({"driver": st})
    ctx.cov["rule"] = ("one trace = one gcdrive process (plan x build x configuration); every Alloc "
                       "event is one overlap check against all known-placed objects; non-trivial = "
                       "allocations made after at least one collection reclaimed memory")
