"""C08 — interior-pointer and conservative lookups resolve to the right object (vo_bit builds)."""
from props import heapcommon as hc

SPEC_DIR = "heap"
TRACE_SPEC = ("HeapTrace.tla", "HeapTrace.cfg")
META = {
    "level": "model_checking",
    "text": "After every forced collection and the allocations that follow, the driver calls "
            "is_mmtk_object and find_object_from_internal_pointer on: the reference, the start, "
            "interior words, the last word of rooted objects (incl. multi-page large objects) with "
            "search limits below/at/above the distance, and on addresses outside the heap (low, "
            "stack, top of address space, heap edges). HeapTrace.tla (ProbeOK) decides each answer "
            "from the set of objects whose placement the model knows: reference -> Some(o); "
            "interior word -> None for is_mmtk_object; internal pointer -> Some(o) iff distance < "
            "limit (distance = limit unconstrained); pointer into the header words below the "
            "reference -> None; outside the heap -> None; a panic is a violation.",
    "note": "Trusted: TLC, ShadowVM. Addresses that may hold unreclaimed garbage are not "
            "constrained (sound under lazy reclamation). API preconditions (non-zero, word-aligned) "
            "are generator constraints.",
    "technique": "TLA+ operator ProbeOK (HeapTrace.tla) evaluated by TLC on recorded lookups "
                 "against the real vo_bit build under all plans",
}
PREFIXES = ("C08:",)


def run(ctx):
    hc.design_mc(ctx)
    st = hc.execute(ctx, hc.matrix(ctx.tier, focus="vo"), PREFIXES)
    ctx.cov.update({"driver": st})
    ctx.cov["rule"] = ("one trace = one gcdrive process of a vo_bit build; each Probes event holds "
                       "~50-150 lookups (11 per sampled rooted object + 20 outside addresses)")
