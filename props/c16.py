"""C16 — worker shutdown and fork round-trip"""
import os
import vf
from props import schedcommon as sc

SPEC_DIR = "scheduler"
TRACE_SPEC = ("Trace_Scheduler.tla", "Trace_Scheduler.cfg")
META = {
    "level": "model_checking",
    "text": 'Design level: Scheduler.tla with exit goals (Gc before Shutdown before StopForFork), prepare_surrender_buffer / surrender / on_all_workers_exited / respawn: SurrenderOK, ExitClean, GoalPriority, ExitOnlyOnExitGoal, ParkedZeroWhenAllExited, NoPanic, and (thorough) liveness ForkServed, ForkRoundTrip, Served after respawn; mutants (goal not cleared by the last worker, exit goal answered without WakeAll) must be rejected. Conformance: fork cycles on the real code (prepare_to_fork racing with a GC request from another thread, wait for the worker threads, after_fork, GC) and a final shutdown; Unpark(exit)/Surrender/AllExited/Respawn are replayed through the spec.',
    "note": 'Trusted: TLC; the add-only event hooks (emitted under WorkerMonitor::sync for lock-protected state, before enabling / after disabling lock-free operations); the ShadowVM binding. Schedules of real runs are those the OS produced (1..8 workers, loaded machine); all interleavings are covered only for the bounded models (N <= 3 workers). Sequential consistency is assumed; packet identity in traces is (type, stage) multisets.',
    "technique": "TLA+ spec (Scheduler.tla) model-checked with TLC incl. mutants; traces of the real "
                 "scheduler (hooks at every critical section / atomic step) validated with TLC against "
                 "Trace_Scheduler.tla, which replays them through the actions of Scheduler.tla",
}
PREFIXES = ('C16:',)


def run(ctx):
    sc.design_mc(ctx, "C16", ["MC_Scheduler_fork.cfg"], ["MC_Scheduler_fork_live.cfg"])
    runs = sc.matrix(ctx.tier, "fork")
    # gated run: a GC request made while the last worker is exiting for fork (once the try_lock().unwrap()
    # race, repaired by b4affbf) stays pending and is served after after_fork
    if True:
        runs.append(sc.SRun("SemiSpace", "gate-trylock", driver="scheddrive", workers=2, mutators=1,
                            extra=["--gate", "trylock"], seed_off=51, timeout=60))
    st = sc.execute(ctx, runs, PREFIXES)
    first = st.pop("_first_trace", None)
    if ctx.tier == "thorough" and first and not ctx.violations:
        sc.binding_demo(ctx, first)
    ctx.cov.update({"driver": st, "rule": sc.RULE, "plans": sc.PLANS})

