"""C33 — alignment and size arithmetic meet their specifications.
Spec: spec/arith/Arith.tla. Three layers: (1) the mathematical definitions (least multiple >= v,
greatest multiple <= v, ceil(v / 2^k), least r >= region with (r + offset) % align = 0, worst-case
padding), (2) models of what the code computes on a W-bit word, (3) the same definitions on limb
vectors (how 64-bit values travel in traces). TLC checks 2 = 1 and 3 = 1 for every value of a 12-bit
word (and of an 8-bit word with a different limb count, with "least" spelled out as a quantifier),
and rejects three broken variants.
Binding: `d_arith arith` calls the real raw_align_up/down/is_aligned, Address::align_*,
rshift_align_up, bytes_to_pages_up, bytes_to_chunks_up, pages_to_bytes, page/chunk alignment,
address<->chunk index, align_allocation / _no_fill / _inner and get_maximum_aligned_size(_inner)
(six VM alignment settings) on an exhaustive low-bits grid, structured 64-bit values and seeded
random words; Trace_Arith judges every call: precondition => postcondition."""
import json
import os
from concurrent.futures import ThreadPoolExecutor

import vf

META = {
    "level": "model_checking",
    "text": "TLC checks on every value of a 12-bit word (and an 8-bit word with 4 limbs, with "
            "'least'/'greatest' spelled out as quantifiers) that the code's mask/wrapping formulas "
            "equal the mathematical definitions whenever the result fits the word, that the "
            "worst-case padding bound of get_maximum_aligned_size holds and is attained, and that "
            "the limb-vector predicates used to judge 64-bit traces agree with the definitions; "
            "three broken variants are rejected. The real functions are then run on all inputs "
            "below 2^12 (per alignment), structured 64-bit inputs h*2^k+e, values next to 2^32, "
            "2^63 and usize::MAX and seeded random words, under several VM MIN/MAX_ALIGNMENT "
            "settings, and TLC validates every call (precondition => postcondition). Exhaustive "
            "small word + structured/random wide inputs is the strongest level available for "
            "functions over 2^64 inputs without a proof assistant.",
    "note": "Not a proof over all 2^64 inputs: exhaustive only for the low 12 bits (crossed with "
            "sampled high parts); that the limb operators are right for 4x16 bits because they are "
            "for 3x4, 4x3 and 4x2 bits is argued, not proved. Inputs whose intermediate sum "
            "overflows (get_maximum_aligned_size with size within `alignment` of 2^64; "
            "bytes_to_chunks_up(2^64-2^22)) are treated as outside the documented domain. "
            "align_allocation_inner with known_alignment > MIN_ALIGNMENT is only driven with "
            "offsets that are multiples of known_alignment. Trusted: TLC, the stub VM binding that "
            "supplies the alignment constants, the JSON limb encoding.",
    "technique": "TLA+ spec (Arith.tla) model-checked with TLC on small words; recorded calls of "
                 "the real functions validated call by call with TLC (Trace_Arith.tla)",
}
SPEC_DIR = "arith"
TRACE_SPEC = ("Trace_Arith.tla", "Trace_Arith.cfg")


def _items(row):
    for k in ("vs", "regions", "sizes"):
        if k in row:
            return len(row[k])
    return 1


def _keyfn(row):
    ev = row.get("ev", "?")
    if ev == "AA":
        return "arith:AA:%s:lmin=%s:lmax=%s:la=%s:known=%s" % (
            row.get("fn"), row.get("lmin"), row.get("lmax"), row.get("la"), row.get("known"))
    if ev == "MS":
        return "arith:MS:inner=%s:lmin=%s:lmax=%s:la=%s:known=%s" % (
            row.get("inner"), row.get("lmin"), row.get("lmax"), row.get("la"), row.get("known"))
    if ev == "AF":
        return "arith:AF:lmin=%s:lmax=%s:la=%s" % (row.get("lmin"), row.get("lmax"), row.get("la"))
    if ev == "RA":
        return "arith:RA:la=%s" % row.get("la")
    if ev == "RS":
        return "arith:RS:bits=%s" % row.get("bits")
    return "arith:%s" % ev


def run(ctx):
    sd = os.path.join(vf.SPEC, SPEC_DIR)
    exe = ctx.build("d_arith")
    quick = ctx.tier == "quick"
    # ---- specification leg
    # (VERIF_ARITH_SKIP_MC=1 skips it: only for mutation experiments on the code, which the
    # specification leg does not depend on)
    if not os.environ.get("VERIF_ARITH_SKIP_MC"):
        ctx.tlc_mc("Arith.tla", "MC_Arith.cfg", spec_dir=sd, require_actions=["Step"])
        ctx.tlc_mc("Arith.tla", "MC_Arith_small.cfg", spec_dir=sd, require_actions=["Step"])
        if not quick:
            ctx.tlc_mc("Arith.tla", "MC_Arith_b.cfg", spec_dir=sd, require_actions=["Step"],
                       timeout=1500)
        for m in ("MC_Arith_mutant_alignup.cfg", "MC_Arith_mutant_delta.cfg",
                  "MC_Arith_mutant_limbs.cfg"):
            ctx.tlc_mc("Arith.tla", m, spec_dir=sd, expect_violation=True)
    # ---- conformance leg
    out = os.path.join(ctx.work, "arith.ndjson")
    args = [exe, "arith", "--out", out]
    if not quick:
        args += ["--lowk", "0,1,2,3,4,5,6,7,8,9,10,11,12", "--highs", "3", "--rand", "128",
                 "--dense", "--aahighs", "3", "--span", "2048", "--offs", "12", "--wspan", "128",
                 "--morevms"]
    rc, o = ctx.run(args, timeout=900)
    if rc != 0:
        raise vf.ToolError("d_arith arith failed: rc=%s\n%s" % (rc, o[-2000:]))
    rows = vf.read_ndjson(out)
    by_ev = {}
    for r in rows:
        e = by_ev.setdefault(r["ev"], {"rows": 0, "calls": 0, "wide_rows": 0})
        e["rows"] += 1
        e["calls"] += _items(r)
        e["wide_rows"] += 1 if r.get("w", 1) == 1 else 0
    ctx.sample_lines(out, 1, maxlen=400)
    nparts = 1 if quick else 4
    # interleave rows over the parts so that the expensive (wide) rows are spread evenly
    parts = []
    lines = open(out).read().splitlines()
    for i in range(nparts):
        p = os.path.join(ctx.work, "arith_part%d.ndjson" % i)
        with open(p, "w") as f:
            f.write("\n".join(lines[i::nparts]) + "\n")
        parts.append(p)

    def validate(p):
        n = sum(_items(json.loads(l)) for l in open(p) if l.strip())
        return ctx.tlc_trace(TRACE_SPEC[0], TRACE_SPEC[1], p, spec_dir=sd, key="arith:row",
                             what="a real alignment/size function returned a value the "
                                  "specification does not allow", ntraces=n, keyfn=_keyfn,
                             timeout=3000)
    if nparts == 1:
        validate(parts[0])
    else:
        with ThreadPoolExecutor(max_workers=4) as ex:   # 4 single-worker TLC processes
            list(ex.map(validate, parts))
    ctx.cov["rows"] = len(rows)
    ctx.cov["calls_by_function_group"] = by_ev
    ctx.cov["exhaustive"] = "low 12 bits per alignment (narrow rows); wide inputs sampled"
    ctx.cov["rule"] = ("one validated trace = one call of a real function (batched per row); "
                       "RA: raw_align_up/down/is_aligned + Address methods, RS: rshift_align_up, "
                       "PG/PX: page and chunk conversions, AA: align_allocation family, MS: "
                       "get_maximum_aligned_size, AF: alignment-gap filling on real memory")
    ctx.assumptions.append("inputs whose intermediate sum overflows (size + alignment in "
                           "get_maximum_aligned_size, bytes + BYTES_IN_CHUNK in "
                           "bytes_to_chunks_up) are outside the documented domain")
    ctx.assumptions.append("the region passed to align_allocation is aligned to known_alignment "
                           "(MIN_ALIGNMENT for the public entry points) and the offset is a "
                           "multiple of it")
