"""C13 — VM weak-reference processing rounds run until the closure is complete"""
import os
import vf
from props import schedcommon as sc

SPEC_DIR = "scheduler"
TRACE_SPEC = ("Trace_Scheduler.tla", "Trace_Scheduler.cfg")
META = {
    "level": "model_checking",
    "text": 'Design level: Scheduler.tla with sentinel packets that may re-arm themselves: SentinelAfterClosure (a sentinel packet starts only when every packet of its stage and of all earlier stop-the-world stages has finished), PacketConservation; the mutant that schedules a sentinel at set_sentinel time must be rejected. Conformance: ShadowVM ephemeron chains needing 1..k+1 rounds under all plans: every process_weak_refs call happens in the pause, after a last-parked callback scheduled the sentinel on a drained stage, rounds are numbered consecutively, a call follows iff the previous one returned true, none after false, forward_weak_refs exactly once (after the last round) iff the plan forwards after liveness. (Survival of the traced objects is judged by HeapTrace in C01/C06.)',
    "note": 'Trusted: TLC; the add-only event hooks (emitted under WorkerMonitor::sync for lock-protected state, before enabling / after disabling lock-free operations); the ShadowVM binding. Schedules of real runs are those the OS produced (1..8 workers, loaded machine); all interleavings are covered only for the bounded models (N <= 3 workers). Sequential consistency is assumed; packet identity in traces is (type, stage) multisets.',
    "technique": "TLA+ spec (Scheduler.tla) model-checked with TLC incl. mutants; traces of the real "
                 "scheduler (hooks at every critical section / atomic step) validated with TLC against "
                 "Trace_Scheduler.tla, which replays them through the actions of Scheduler.tla",
}
PREFIXES = ('C13:',)


def run(ctx):
    sc.design_mc(ctx, "C13", ["MC_Scheduler_small.cfg"], [])
    st = sc.execute(ctx, sc.matrix(ctx.tier, "weak"), PREFIXES)
    first = st.pop("_first_trace", None)
    if ctx.tier == "thorough" and first and not ctx.violations:
        sc.binding_demo(ctx, first)
    ctx.cov.update({"driver": st, "rule": sc.RULE, "plans": sc.GC_PLANS})

