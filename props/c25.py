"""C25 — side-metadata sanity checking rejects exactly the overlapping spec sets.
Spec: spec/metalayout/MetaLayout.tla (RangeSize, Overlap, SanityAccepts; wide-number arithmetic).
TLC checks on a small address space that the interval predicate `Overlap` holds exactly when the
two tables' address *sets* intersect, that `SanityAccepts` is pairwise disjointness of the global
and of the local tables plus the documented size limits, that the wide arithmetic is exact, and
rejects two mutants (range ends computed without the spec's offset; adjacent tables treated as
overlapping).
Binding: harness/d_header `sanity` calls the real `verify_no_overlap_contiguous` and
`SideMetadataSanity::verify_metadata_context` (hooks in sanity.rs) on a grid of spec pairs
(shapes x base offsets x placements: same offset, adjacent, adjacent +-1/+-8, half inside, far, below)
and on generated plans (chains of global/local specs, perturbed to overlap, 1..3 policies);
Trace_Sanity (LogArch = 47) decides every row."""
import os
import re
import vf

META = {
    "level": "model_checking",
    "text": "TLC checks on a 2^6-address model (all sequences of up to 2, thorough 3, distinct specs "
            "out of a universe of offsets x 9 table shapes x global/local) that the specified "
            "overlap predicate is exactly intersection of the tables' address sets and that "
            "SanityAccepts is pairwise disjointness plus the documented size limits, and rejects "
            "two broken predicates. The real verify_no_overlap_contiguous and "
            "SideMetadataSanity::verify_metadata_context are then run on a grid of spec pairs "
            "(shapes^2 x base offsets up to 2^47 x 15 relative placements, both argument orders) + "
            "random pairs + generated plans, and TLC decides every recorded verdict with 47-bit "
            "arithmetic. Exhaustive small-scope + grid/random validation is the right level for a "
            "pure predicate over (offset, width, region size).",
    "note": "Trusted: TLC, the hooks verif_no_overlap_contiguous / verif_sanity_contexts (they call "
            "the private functions unchanged; the latter clears the poisoned content-map lock "
            "between runs), the offset split into (offset >> 20, offset & 0xfffff). Real plan "
            "contexts (C24's traces) are not replayed here; generated plans follow the layout rule "
            "of spec_defs.rs (side_metadata_offset_after). Only the 64-bit (contiguous) layout is "
            "compiled.",
    "technique": "TLA+ spec (MetaLayout.tla) checked with TLC; recorded verdicts of the real sanity "
                 "check validated row by row with TLC (Trace_Sanity.tla)",
}
SPEC_DIR = "metalayout"
TRACE_SPEC = ("Trace_Sanity.tla", "Trace_Sanity.cfg")
JVM_ENV = {"JAVA_TOOL_OPTIONS": "-XX:ParallelGCThreads=2"}


def keyfn(row):
    """Finding key: which entry point, and the class of disagreement as decided by the trace
    specification (the tag of its ROW_REJECTED line)."""
    kind = {"Pair": "pair", "Ctx": "context"}.get(row.get("ev"), str(row.get("ev")).lower())
    return "sanity.%s:%s" % (kind, row.get("_tag") or "?")


def run(ctx):
    sd = os.path.join(vf.SPEC, SPEC_DIR)
    quick = ctx.tier == "quick"
    exe = ctx.build("d_header")
    ctx.tlc_mc("MetaLayout.tla", "MC_MetaLayout.cfg", spec_dir=sd, require_actions=["Declare"],
               env=JVM_ENV)
    ctx.tlc_mc("MetaLayout.tla", "MC_MetaLayout_mutant_offset.cfg", spec_dir=sd,
               expect_violation=True, env=JVM_ENV)
    ctx.tlc_mc("MetaLayout.tla", "MC_MetaLayout_mutant_adjacent.cfg", spec_dir=sd,
               expect_violation=True, env=JVM_ENV)
    if not quick:
        ctx.tlc_mc("MetaLayout.tla", "MC_MetaLayout_deep.cfg", spec_dir=sd,
                   require_actions=["Declare"], env=JVM_ENV, timeout=1500)
    out = os.path.join(ctx.work, "sanity.ndjson")
    args = [exe, "sanity", "--out", out]
    if quick:
        args += ["--level", "0", "--random", "1500", "--ctx", "1200"]
    else:
        args += ["--level", "1", "--random", "40000", "--ctx", "30000"]
    rc, o = ctx.run(args, timeout=900)
    if rc != 0:
        if rc < 0 and rc != -9:
            ctx.violation("sanity:driver-killed", "driver terminated by signal %d inside the "
                          "sanity check: %s" % (-rc, o[-500:]))
            return
        raise vf.ToolError("d_header sanity failed: rc=%s\n%s" % (rc, o[-2000:]))
    stats = dict(re.findall(r"(\w+)=(\d+)", o))
    rows = int(stats.get("rows", 0))
    ctx.sample_lines(out, 1)
    lines = open(out).read().splitlines()
    for ln in lines:
        if '"ev":"Ctx"' in ln[:12]:
            ctx.sample(ln[:600])
            break
    per = 40000
    parts = []
    for i in range(0, len(lines), per):
        p = os.path.join(ctx.work, "san_%d.ndjson" % (i // per))
        with open(p, "w") as f:
            f.write("\n".join(lines[i:i + per]) + "\n")
        parts.append(p)
    for i, p in enumerate(parts):
        name = "trace_san_%d" % i
        ctx.tlc_trace(TRACE_SPEC[0], TRACE_SPEC[1], p, spec_dir=sd, name=name, key="sanity:row",
                      keyfn=keyfn, ntraces=sum(1 for _ in open(p)), env=JVM_ENV,
                      timeout=1500,
                      what="verdict of the real side-metadata sanity check differs from "
                           "MetaLayout (Overlap / SanityAccepts)")
    acc = sum(1 for ln in lines if '"ok":true' in ln or '"accepted":true' in ln)
    ctx.cov["rows"] = rows
    ctx.cov["driver"] = {k: int(v) for k, v in stats.items()}
    ctx.cov["accepted_by_impl"] = acc
    ctx.cov["rejected_by_impl"] = rows - acc
    ctx.cov["exhaustive"] = True
    ctx.cov["distinct_nontrivial"] = rows
    ctx.cov["rule"] = (
        "pair grid: %s table shapes squared x base offsets {0, 8, .., 2^46+2^30%s} x global/local "
        "x second spec placed at 0, same offset, +1, end, end-1, end-8, end+8, below (start-size2, "
        "+1, +8, -8), half inside, far, at size1 / size2 - both argument orders; random pairs; "
        "plans: 0..3 global + 0..5 local specs laid out by side_metadata_offset_after from bases "
        "up to 2^46, in half of them one spec moved onto / next to another, locals spread over "
        "1..3 policies; a quarter of the plans may exceed the documented size limits"
        % ("7" if quick else "16", "" if quick else ", 2^47"))
    ctx.assumptions.append("generator constraints: log_num_of_bits <= log_bytes_in_region + 3, "
                           "global lists contain only global specs and are identical for all "
                           "policies of a plan, no list names a spec twice")
    ctx.assumptions.append("the size limits (all global tables <= 2^46 bytes in total, each local "
                           "table <= 2^46 bytes) are taken from the documentation of "
                           "verify_global_specs_total_size / verify_local_specs_size")
