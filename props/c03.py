"""C03 — allocation results honour size, alignment, offset, zeroing and semantics."""
from props import heapcommon as hc

SPEC_DIR = "heap"
TRACE_SPEC = ("HeapTrace.tla", "HeapTrace.cfg")
META = {
    "level": "model_checking",
    "text": "HeapTrace.tla states per allocation: non-null, (address + offset) a multiple of the "
            "alignment, all bytes zero, memory inside MMTk, the space the SFT map resolves the first "
            "and last word to equals both the space bound to the mutator's allocator for that "
            "semantics and the space the plan documents for it (table SpaceFor in the spec), and "
            "no overlap with any placed object; inside the argument grid every legal request must "
            "be satisfied (the heap is several times larger than the grid) and a hang or crash is "
            "a violation. The driver executes a boundary-oriented grid of legal (size, alignment, "
            "offset, semantics) tuples (sizes around line/block/page/TLAB/LOS limits, alignments "
            "8..64 and 8..4096, offsets 0..align-8) on a fresh and on a used heap under all eleven "
            "plans; TLC validates every call. The design-level Heap.tla model is checked as well.",
    "note": "Trusted: TLC, ShadowVM binding, the two cfg(mmtk_verif) accessors reporting space "
            "names. The grid is a boundary sample of the argument space, not all of it; NonMoving "
            "requests are limited to 4 KB (its space is an ImmixSpace), never-collected spaces to "
            "32 KB per request. MAX_ALIGNMENT variants: 64 (quick) and 4096 (thorough).",
    "technique": "TLA+ guards (HeapTrace.tla, SpaceFor table) evaluated by TLC on every recorded "
                 "allocation of a boundary grid executed on the real allocators of all plans",
}
# an allocation that overlaps another one does not honour its size: C02's overlap guard counts here too
PREFIXES = ("C03:", "C02:overlap")


def run(ctx):
    hc.design_mc(ctx)
    st = hc.execute(ctx, hc.grid_matrix(ctx.tier), PREFIXES)
    ctx.cov.update({"driver": st})
    ctx.cov["rule"] = ("one trace = the argument grid (two passes: fresh heap, used heap) under one "
                       "plan/build; every Alloc event is one judged call; non-trivial = calls with "
                       "alignment > 8 or non-zero offset or size within 8 bytes of a boundary")
