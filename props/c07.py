"""C07 — after an exhaustive GC, MMTk reports exactly the surviving objects (vo_bit builds)."""
from props import heapcommon as hc

SPEC_DIR = "heap"
TRACE_SPEC = ("HeapTrace.tla", "HeapTrace.cfg")
META = {
    "level": "model_checking",
    "text": "In valid-object-bit builds the heap walker reports, at the end of every collection, the "
            "identities MMTK::enumerate_objects visits and whether is_mmtk_object accepts each "
            "surviving object. HeapTrace.tla requires: every survivor (reachable objects and all "
            "objects of never-collected spaces) is enumerated and accepted after every "
            "collection; after a collection answering an exhaustive user request the enumerated "
            "multiset has no duplicates and contains nothing but survivors (so no reclaimed object "
            "is still reported). All plans that build with vo_bit, small heaps, 4 workers.",
    "note": "Trusted: TLC, ShadowVM walker. Exhaustive = the first collection after "
            "handle_user_collection_request(force, exhaustive=true); for generational plans that "
            "is a full-heap collection. Finalizer-resurrected objects are covered by C06's runs.",
    "technique": "TLA+ guards (HeapTrace.tla, C07 tags) evaluated by TLC on recorded collections "
                 "of vo_bit builds of the real MMTk under all plans",
}
# a reachable object that MMTk no longer reports as valid is C07's concern too
PREFIXES = ("C07:", "C01:reference-to-reclaimed-object")


def run(ctx):
    hc.design_mc(ctx)
    st = hc.execute(ctx, hc.matrix(ctx.tier, focus="vo"), PREFIXES)
    ctx.cov.update({"driver": st})
    ctx.cov["rule"] = ("one trace = one gcdrive process of a vo_bit build; every GCEnd event carries "
                       "the enumeration; non-trivial = exhaustive collections with survivors and "
                       "reclaimed objects")
