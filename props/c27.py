"""C27 — a raw-memory free list can grow to its configured maximum.
Spec: spec/freelist/RmflGrow.tla (page/block arithmetic of new / grow_freelist / current_capacity /
raise_high_water for every table size 1..MaxPages x block size x head count x growth step
sequence: the requirement itself, the code's arithmetic line by line, and the suggested repair) and
the growth part of spec/freelist/FreeList.tla (grown units are free runs of the list).
Binding: harness/d_freelist `grow` constructs the real RawMemoryFreeList on a private reserved
address range with the limit Map64 configures (base + size_in_pages(units, heads)), for table
pages 1..12 (thorough 1..40) x pages_per_block {1,2,3,16,default} x heads {1,2} x the least / the
greatest / a random unit count of that table size x grains {above max, 1024, 512, 64, 1} x six step
policies, grows it to the maximum, asks for one growth too many, allocates every unit and asks for
one more. Every growth row carries the table observed before and after and the pages the OS
reports as mapped (/proc/self/maps); Trace_FreeList decides every row."""
import os
import vf
from props import freelist_common as fc

META = {
    "level": "model_checking",
    "text": "TLC checks, for every table of 1..12 (thorough 1..40) pages x block sizes {1,2,3,16} x "
            "1-2 heads x limit slack {0,1} and every sequence of growth steps (symbolic page size), "
            "that a growth within the maximum is always possible within the limit, that the "
            "repaired block arithmetic refines that requirement, that the arithmetic of the code "
            "under test does so when the limit is a whole number of blocks, and that it does NOT "
            "otherwise (mutant configuration = the code as written; DESIGN section 9 item 2). "
            "At list level TLC checks that grown units are free and usable. The real "
            "RawMemoryFreeList is then constructed for a grid of accepted tuples with honest "
            "limits, grown to the maximum by six step policies and allocated completely; TLC "
            "validates every recorded call: growth succeeds iff within the maximum, high water "
            "and OS-reported mapping stay within the limit, the table memory of all units is "
            "mapped, every new unit is in a free run of the list, every unit can be allocated. "
            "An exhaustive small-scope model plus a grid over the real constructor is the right "
            "level for integer page/block arithmetic.",
    "note": "Trusted: TLC, the hooks verif_freelist / verif_growth_state (read-only), the projection "
            "through the trait's getters, /proc/self/maps. Growth steps respect the code's own "
            "debug assertion (new size <= grain or a multiple of the grain). Two genuine deviations "
            "are recorded in KNOWN_FINDINGS.json (partial last block; remainder below the first "
            "grain-sized run left unlinked); every other deviation is a VIOLATION. Tables above 40 "
            "pages (20480 units) are not constructed.",
    "technique": "TLA+ specs (RmflGrow.tla, FreeList.tla) checked with TLC; recorded growth "
                 "histories of the real RawMemoryFreeList validated with TLC (Trace_FreeList.tla)",
}
SPEC_DIR = "freelist"
TRACE_SPEC = fc.TRACE_SPEC
WHAT = "real RawMemoryFreeList growth deviates from the specification"


def model_check(ctx):
    quick = ctx.tier == "quick"
    sfx = "" if quick else "_big"
    # ---- design level: page/block arithmetic -----------------------------------------------------
    fc.mc(ctx, "MC_RmflGrow%s.cfg" % sfx, module="RmflGrow.tla", require=["Grow"], timeout=2400)
    fc.mc(ctx, "MC_RmflGrow_repaired%s.cfg" % sfx, module="RmflGrow.tla", require=["Grow"],
          timeout=2400)
    fc.mc(ctx, "MC_RmflGrow_literal_aligned%s.cfg" % sfx, module="RmflGrow.tla", require=["Grow"],
          timeout=2400)
    fc.mc(ctx, "MC_RmflGrow_mutant_literal.cfg", module="RmflGrow.tla", mutant=True)
    # ---- design level: grown units are usable ----------------------------------------------------
    fc.mc(ctx, "MC_FreeList_rm%s.cfg" % sfx, require=["Alloc", "Free", "Grow"], timeout=2400)
    fc.mc(ctx, "MC_FreeList_mutant_growremainder.cfg", mutant=True)


def drive_and_validate(ctx):
    quick = ctx.tier == "quick"
    exe = ctx.build("d_freelist")
    # ---- the real code ---------------------------------------------------------------------------
    files = []
    runs = [("dbg", exe, 12, 8)] if quick else [
        ("dbg", exe, 40, 1),
        ("rel", ctx.build("d_freelist", release=True), 40, 3)]
    tuples = 0
    for tag, binary, maxpages, sample in runs:
        out = os.path.join(ctx.work, "grow_%s.ndjson" % tag)
        rc, o = ctx.run([binary, "grow", "--out", out, "--maxpages", str(maxpages), "--sample",
                         str(sample), "--hang", "30"], timeout=600 if quick else 2400)
        if rc == 3:
            ctx.sample("grow %s: a call of the code under test hung (Hang row recorded)" % tag)
        elif rc != 0:
            ctx.violation("driver:grow:exit-%s" % rc, "d_freelist grow died (a fault in the code "
                          "under test that is not a panic): %s" % o[-600:])
            continue
        for line in o.splitlines():
            if line.startswith("tuples="):
                tuples += int(line[7:])
        files.append(out)
    parts = []
    for f in files:
        n = sum(1 for _ in open(f))
        parts += vf.split_ndjson(f, 3 if quick else max(3, n // 30000), ctx.work,
                                 "g_" + os.path.basename(f)[:-7], boundary_ev="New")
    fc.validate(ctx, parts, WHAT, False, fc.histories, jobs=3 if quick else 4)
    st = fc.stats(files)
    if files:
        ctx.sample_lines(files[0], 3, maxlen=500)
    if not quick and parts:
        ctx.cov["binding_demo"] = fc.binding_demo(ctx, parts[0], "c27")
    ctx.cov["trace_content"] = st
    ctx.cov["tuples"] = tuples
    ctx.cov["exhaustive"] = False
    ctx.cov["distinct_nontrivial"] = st.get("grow_ok", 0)
    ctx.cov["rule"] = ("grid: table pages x pages_per_block {1,2,3,16,min(pages,16)} x heads {1,2} "
                       "x unit counts {least, greatest, random} of that table size x grains x step "
                       "policies {all at once, 1024 at a time, one grain at a time, random, block "
                       "edges, below-grain first}; every %d-th tuple in this tier, rotated by "
                       "VERIF_SEED; one history per tuple (limit slack 1 on every 5th); "
                       "traces_validated_against_impl counts histories accepted row by row; "
                       "distinct_nontrivial = successful growth calls" % (8 if quick else 1))
    ctx.assumptions.append("the limit passed to RawMemoryFreeList::new is the honest one "
                           "(base + size_in_pages(units, heads), optionally + 1 page), as in "
                           "Map64::create_parent_freelist")
    ctx.assumptions.append("histories that end at a recorded finding (panic) do not exercise the "
                           "remaining growth of that tuple")


def run(ctx):
    model_check(ctx)
    drive_and_validate(ctx)
