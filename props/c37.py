"""C37 — Compressor forwarding addresses pack live objects in order (component level).
Spec: spec/compressor/Compressor.tla — mark bits at first/last word, the transducer
(visit/encode/decode), the per-block offset vector and `forward`, with the declarative property
Packs; TLC enumerates every layout of a small region (block size scaled down) and rejects three
broken mechanisms. Binding: d_policy compressor runs the real marking / calculate_offset_vector /
forward on a mapped 1 MiB region (real 512-byte blocks) for exhaustive word-granular windows,
boundary-exhaustive layouts over the first three blocks, and random layouts; Trace_Compressor
judges every layout."""
import json
import os
import re
import vf

META = {
    "level": "model_checking",
    "text": "TLC enumerates every layout of objects (>= 2 words, any gaps) in a region of 13 "
            "(thorough: 17) words with 4-word blocks (and 3-word blocks) in Compressor.tla and "
            "proves that the modelled mechanism (first/last-word mark bits, transducer, "
            "encode/decode with the in-object flag, per-block offset vector, forward) yields for "
            "each object the region start plus the size of the live objects before it - hence "
            "order preserving, non overlapping, never above the original address; three broken "
            "mechanisms are rejected and witnesses show multi-block objects and objects ending on "
            "block ends are in the enumerated space. The real pipeline is run on a mapped 1 MiB "
            "region with the real 64-word blocks: every layout inside four word windows (region "
            "start, across a block boundary, ending on a block end, ending at the cursor), every "
            "layout of <= 3 (thorough: 4) objects whose first/last words are adjacent to the "
            "boundaries of the first three blocks, and random dense/sparse/huge-object layouts up "
            "to the whole region; TLC judges forward() of every object of every layout.",
    "note": "Component level: marking is done through CompressorSpace::test_and_mark + "
            "mark_last_word_of_object as trace_mark_object does; the cursor is page aligned as "
            "RegionPageResource keeps it. Word-granular exhaustiveness holds inside the stated "
            "windows/boundary positions, not over the whole 131072-word region. Trusted: TLC, the "
            "hooks in forwarding.rs::verif_hooks, the dummy object model (header word = size).",
    "technique": "TLA+ spec (Compressor.tla) model-checked with TLC; recorded layouts of the real "
                 "code validated row by row with TLC (Trace_Compressor.tla)",
}
SPEC_DIR = "compressor"
TRACE_SPEC = ("Trace_Compressor.tla", "Trace_Compressor.cfg")
MUTANTS = ["size_without_last_word", "encode_drops_flag", "decode_ignores_flag"]


def keyfn(row):
    src = re.sub(r"\W+", "_", str(row.get("src", "?")))
    if row.get("ev") == "Crash":
        return "compressor:crash:" + src
    return "compressor:forward:" + src


def summary(out):
    m = re.search(r"^SUMMARY (\{.*\})$", out, re.M)
    if not m:
        raise vf.ToolError("driver printed no SUMMARY line:\n" + out[-1500:])
    return json.loads(m.group(1))


def run(ctx):
    sd = os.path.join(vf.SPEC, SPEC_DIR)
    quick = ctx.tier == "quick"
    exes = [("debug", ctx.build("d_policy"))]
    if not quick:
        exes.append(("release", ctx.build("d_policy", release=True)))
    ctx.tlc_mc("Compressor.tla", "MC_Compressor.cfg", spec_dir=sd, require_actions=["Extend"])
    ctx.tlc_mc("Compressor.tla", "MC_Compressor_b3.cfg", spec_dir=sd, require_actions=["Extend"],
               timeout=1500)
    if not quick:
        ctx.tlc_mc("Compressor.tla", "MC_Compressor_thorough.cfg", spec_dir=sd,
                   require_actions=["Extend"], timeout=1700)
    for m in MUTANTS:
        ctx.tlc_mc("Compressor.tla", "MC_Compressor_mutant_%s.cfg" % m, spec_dir=sd,
                   expect_violation=True)
    # coverage witnesses: the enumerated space contains the layouts the property singles out
    for w in ("multiblock", "blockend"):
        ctx.tlc_mc("Compressor.tla", "MC_Compressor_witness_%s.cfg" % w, spec_dir=sd,
                   expect_violation=True)

    if quick:
        args = ["--window", 10, "--kmax", 3, "--random", 300, "--big", 2]
    else:
        args = ["--window", 13, "--kmax", 4, "--random", 3000, "--big", 12]
    details = []
    rows = 0
    first = None
    for prof, exe in exes:
        a = list(args)
        if prof == "release":
            a = ["--window", 11, "--kmax", 3, "--random", 3000, "--big", 12]
        out = os.path.join(ctx.work, "cf_%s.ndjson" % prof)
        rc, o = ctx.run([exe, "compressor", "--out", out] + [str(x) for x in a], timeout=900)
        if rc != 0:
            # the driver itself died (e.g. a fault inside the pipeline that is not a panic)
            ctx.violation("compressor:driver-died:%s" % prof,
                          "d_policy compressor terminated abnormally rc=%s: %s" % (rc, o[-600:]),
                          out if os.path.exists(out) else None)
            continue
        s = summary(o)
        details.append({"profile": prof, **s})
        rows += s["rows"]
        first = first or out
        nparts = 1 if s["rows"] < 30000 else 4
        parts = vf.split_ndjson(out, nparts, ctx.work, "cf_%s_part" % prof, boundary_ev="CF")
        for p in parts:
            ctx.tlc_trace(TRACE_SPEC[0], TRACE_SPEC[1], p, spec_dir=sd, key="compressor:row",
                          keyfn=keyfn, ntraces=sum(1 for _ in open(p)), timeout=1700, xmx="8g",
                          what="forward() of the real ForwardingMetadata does not pack the live "
                               "objects of this layout (or the pipeline panicked)")
    if first:
        ctx.sample_lines(first, 1)
        with open(first) as f:
            for ln in f:
                if '"boundary3"' in ln and ln.count("],[") >= 2:
                    ctx.sample(ln.strip()[:400])
                    break
    if not quick and first:
        binding_demo(ctx, sd, first)
    ctx.cov["rows"] = rows
    ctx.cov["driver_runs"] = details
    ctx.cov["exhaustive"] = True
    ctx.cov["rule"] = ("one row per layout = one run of the real pipeline (clear, mark every live "
                       "object, calculate_offset_vector, forward of every object). window rows: "
                       "every layout inside 4 windows of the stated width; boundary rows: every "
                       "layout of <= kmax objects with first/last words in {0,1,2,62..66,126..130,"
                       "190..193}; random rows: seeded dense/sparse/mixed/huge layouts under "
                       "cursors of 1..32 pages, marked in random order with some objects marked "
                       "twice; big rows: whole-region layouts (cursor = region end)")
    ctx.assumptions.append("objects are >= 2 words, disjoint, below the cursor; the cursor is page "
                           "aligned and within the region (preconditions of the Compressor)")


def binding_demo(ctx, sd, trace):
    """Vacuity control 3: corrupt one forwarding address of an accepted row; TLC must reject."""
    lines = open(trace).read().splitlines()[:3000]
    idx = next((i for i, l in enumerate(lines)
                if '"ev":"CF"' in l and len(json.loads(l)["fwd"]) >= 2), None)
    if idx is None:
        raise vf.ToolError("no row to corrupt")
    row = json.loads(lines[idx])
    row["fwd"][1] += 1
    lines[idx] = json.dumps(row, separators=(",", ":"))
    bad = os.path.join(ctx.work, "cf_corrupted.ndjson")
    with open(bad, "w") as f:
        f.write("\n".join(lines) + "\n")
    rc, out, _ = ctx._tlc(sd, TRACE_SPEC[0], TRACE_SPEC[1], "binding_demo", 1, 600,
                          jvm=vf.TRACE_JVM, env={"TRACE": bad})
    rejected = ("ROW_REJECTED l=%d" % (idx + 1)) in out
    ctx.cov["binding_demo"] = {"corrupted_line": idx + 1, "rejected": rejected}
    if not rejected:
        raise vf.ToolError("binding demonstration failed: a corrupted trace was accepted")
