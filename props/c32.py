"""C32 — space descriptors encode and decode their heap range.
Spec: spec/descriptor/Descriptor.tla: the mantissa/exponent/size/type encoding of the 32-bit style
descriptor with the real constants, its admissibility condition, the decoders, and the property
(`Reports`: same start, same extent, contiguous, top-of-heap flag iff the range ends at heap_end,
not empty; discontiguous descriptors distinct, non-contiguous, non-empty). TLC checks the
encode/decode round trip on the model for every start chunk below 2^32 x chunk counts x top flag
and for starts m*2^e up to 47-bit addresses, and rejects two broken variants.
Binding: `d_arith descriptor --layout l32|wide|l64` (one VM layout per process, installed through
MMTKBuilder::set_vm_layout before anything reads it) creates REAL descriptors with
SpaceDescriptor::create_descriptor_from_heap_range / create_descriptor and records what
get_start / get_extent / is_contiguous / is_contiguous_hi / is_empty report; Trace_Descriptor judges
every admissible pair."""
import json
import os

import vf

META = {
    "level": "model_checking",
    "text": "The 32-bit style encoding is a finite domain and is covered completely in the thorough "
            "tier: every chunk-aligned start below 2^32 (1023 start chunks) x every chunk count "
            "1..1023 that ends at or below 2^32 x the top-of-heap case is created with the real "
            "code under the 32-bit layout and judged by TLC (quick tier: all starts, all counts "
            "inside the layout's heap range for every 4th start, a stratified count sample "
            "elsewhere); a second process with a 47-bit discontiguous layout covers starts m*2^e "
            "beyond 2^32 for mantissas below 2^14, a third the 64-bit layout's whole-slot ranges; "
            "1000 discontiguous descriptors per process are checked for distinctness. TLC also "
            "checks the round trip on a model of the encoding for the same domain and rejects two "
            "broken variants. Exhaustive enumeration is the strongest level for a finite domain.",
    "note": "Only the 64-bit build is compiled: a real 32-bit usize (where a 15+ bit mantissa would "
            "be truncated) is not observed; pairs whose odd start part needs more than 14 bits are "
            "outside the encoding's limits and are not judged. Under the 64-bit layout only "
            "ranges that are exactly one space slot are judged (the 64-bit descriptor stores a "
            "slot index, by design). Trusted: TLC, hook SpaceDescriptor::verif_raw (identity of a "
            "descriptor), the public MMTKBuilder::set_vm_layout.",
    "technique": "TLA+ spec (Descriptor.tla) model-checked with TLC; real descriptors of three VM "
                 "layouts (one process each) validated row by row with TLC (Trace_Descriptor.tla)",
}
SPEC_DIR = "descriptor"
TRACE_SPEC = ("Trace_Descriptor.tla", "Trace_Descriptor.cfg")
LAYOUTS = ("l32", "wide", "l64")


def _binding_demo(ctx, sd, good_trace):
    """Corrupt one reported extent, one hi flag and duplicate one discontiguous raw word of an
    accepted trace; the trace specification has to reject all three."""
    out, changed = [], set()
    for ln in open(good_trace).read().splitlines()[:1500]:
        r = json.loads(ln)
        if r["ev"] == "CD" and "extent" not in changed and len(r["ns"]) > 2:
            r["ex_c"][1] += 1
            changed.add("extent")
        elif r["ev"] == "CD" and "hi" not in changed and len(r["ns"]) > 2:
            r["hi"][0] = 1 - r["hi"][0]
            changed.add("hi")
        elif r["ev"] == "DD" and "dup" not in changed:
            r["raws"][3] = r["raws"][2]
            changed.add("dup")
        out.append(json.dumps(r, separators=(",", ":")))
    p = os.path.join(ctx.work, "demo_corrupt.ndjson")
    with open(p, "w") as f:
        f.write("\n".join(out) + "\n")
    rc, o, _ = ctx._tlc(sd, TRACE_SPEC[0], TRACE_SPEC[1], "demo_corrupt", 1, 1200,
                        jvm=vf.TRACE_JVM, env={"TRACE": p})
    nrej = len({l for l in o.splitlines() if "ROW_REJECTED" in l})
    ctx.cov["binding_demo"] = {"corrupted": sorted(changed), "rows_rejected": nrej}
    if nrej != 3:
        raise vf.ToolError("binding demonstration failed: %d of 3 corrupted rows rejected" % nrej)


def run(ctx):
    sd = os.path.join(vf.SPEC, SPEC_DIR)
    exe = ctx.build("d_arith")
    quick = ctx.tier == "quick"
    # ---- specification leg
    # (VERIF_ARITH_SKIP_MC=1 skips it: only for mutation experiments on the code, which the
    # specification leg does not depend on)
    if not os.environ.get("VERIF_ARITH_SKIP_MC"):
        ctx.tlc_mc("Descriptor.tla", "MC_Descriptor.cfg" if quick else "MC_Descriptor_full.cfg",
                   spec_dir=sd, require_actions=["Step"], timeout=2400)
        if not quick:
            ctx.tlc_mc("Descriptor.tla", "MC_Descriptor_wide.cfg", spec_dir=sd,
                       require_actions=["Step"], timeout=2400)
        for m in ("MC_Descriptor_mutant_size.cfg", "MC_Descriptor_mutant_hi.cfg"):
            ctx.tlc_mc("Descriptor.tla", m, spec_dir=sd, expect_violation=True)
    # ---- conformance leg: one process per VM layout, one TLC run over the three traces
    allp = os.path.join(ctx.work, "descriptor_all.ndjson")
    per_layout = {}
    with open(allp, "w") as allf:
        for lay in LAYOUTS:
            out = os.path.join(ctx.work, "descriptor_%s.ndjson" % lay)
            if os.path.exists(out):
                os.remove(out)
            args = [exe, "descriptor", "--layout", lay, "--out", out]
            if not quick:
                args.append("--all")
            rc, o = ctx.run(args, timeout=900)
            if rc != 0 or not os.path.exists(out):
                raise vf.ToolError("d_arith descriptor --layout %s failed: rc=%s\n%s" % (
                    lay, rc, o[-2000:]))
            rows = vf.read_ndjson(out)
            per_layout[lay] = {
                "rows": len(rows),
                "contiguous_descriptors": sum(len(r["ns"]) for r in rows if r["ev"] == "CD"),
                "crashed_calls": sum(r["st_c"].count(-1) for r in rows if r["ev"] == "CD"),
                "discontiguous_descriptors": sum(len(r["raws"]) for r in rows if r["ev"] == "DD"),
                "layout": next((r for r in rows if r["ev"] == "LY"), None),
            }
            allf.write(open(out).read())
            ctx.sample_lines(out, 1)
    ntr = sum(v["contiguous_descriptors"] + v["discontiguous_descriptors"] for v in per_layout.values())

    def keyfn(row):
        # input class = magnitude of the start chunk (log2 bucket); sc < 1024 <=> start below 2^32
        sc = row.get("sc")
        bucket = "-" if sc is None else "sc<2^%d" % max(1, int(sc).bit_length())
        return "descriptor:%s:%s:%s" % (row.get("ev"), row.get("_tag"), bucket)
    def validate(path, n):
        ctx.tlc_trace(TRACE_SPEC[0], TRACE_SPEC[1], path, spec_dir=sd, key="descriptor:row",
                      what="a real SpaceDescriptor does not report the range it was created for",
                      ntraces=n, keyfn=keyfn, replay_whole=True, timeout=3000, xmx="6g")

    def count(lines):
        n = 0
        for ln in lines:
            r = json.loads(ln)
            n += len(r.get("ns", [])) + len(r.get("raws", []))
        return n
    if quick:
        validate(allp, ntr)
    else:
        # big traces: one TLC run per <= 25k rows; every part starts with its process's LY row
        for lay in LAYOUTS:
            lines = open(os.path.join(ctx.work, "descriptor_%s.ndjson" % lay)).read().splitlines()
            ly, body = lines[0], lines[1:]
            for k in range(0, max(1, len(body)), 25000):
                part = os.path.join(ctx.work, "descriptor_%s_%d.ndjson" % (lay, k // 25000))
                chunk = body[k:k + 25000]
                with open(part, "w") as f:
                    f.write("\n".join([ly] + chunk) + "\n")
                validate(part, count(chunk))
    if not quick:
        _binding_demo(ctx, sd, os.path.join(ctx.work, "descriptor_wide.ndjson"))
    ctx.cov["per_layout"] = per_layout
    ctx.cov["exhaustive"] = (not quick)
    ctx.cov["rule"] = ("one validated trace = one real descriptor (created, then queried for start, "
                       "extent, contiguity, hi flag, emptiness); pairs the encoding does not admit "
                       "are recorded but not judged")
    ctx.assumptions.append("a descriptor word is 64 bits in this build: mantissas are never "
                           "truncated; admissibility (odd part of the start < 2^14) is decided by "
                           "the specification")
