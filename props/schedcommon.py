"""Shared driver of the scheduler checks (C11, C13, C14, C15, C16).

Design level: Scheduler.tla is model-checked with the configurations of spec/scheduler relevant to
the property (plus mutants that TLC must reject).  Conformance: gcdrive (real MMTk + ShadowVM) runs
under all plans / worker counts with the scheduler hooks on; every trace is validated with TLC
against Trace_Scheduler.tla, which replays the lock-protected protocol through the actions of
Scheduler.tla and compares the specification's state with the snapshots the last parked worker
logs.  Each rejected guard is attributed to the property named in its tag."""
import concurrent.futures as cf
import json
import os
import re

import vf
from props import heapcommon as hc

SD = os.path.join(vf.SPEC, "scheduler")
PLANS = hc.PLANS
GC_PLANS = [p for p in PLANS if p != "NoGC"]

# mutants of the design-level specification: cfg suffix -> property whose check runs it
MUTANTS = {
    "NoNotifyMakeRequest": "C14", "LastWaits": "C14", "DecSkipped": "C14", "FlagNeverCleared": "C14",
    "NoWakeAllOnOpen": "C14",
    "SentinelKept": "C15", "NoDesignatedCheck": "C15", "OpenAllAtOnce": "C15", "DisabledBlocks": "C15",
    "NoGoalClearOnExit": "C16", "NoNotifyAllOnExit": "C16",
    "SentinelEager": "C13", "OpenBeforeStop": "C11",
}
SLOW_MUTANTS = {"NoWakeAllOnOpen"}          # liveness: thorough tier only


class SRun(hc.Run):
    """One gcdrive process for the scheduler checks."""

    def __init__(self, plan, name, **kw):
        self.timeout = kw.pop("timeout", 240)
        self.driver = kw.pop("driver", "gcdrive")
        kw.setdefault("sems", "0,0,0,0,2")
        kw.setdefault("heap", 16)
        super().__init__(plan, name=name, **kw)

    @property
    def label(self):
        return "%s-%s-w%d" % (self.plan, self.name, self.workers)

    def argv(self, exe, out):
        if self.driver == "gcdrive":
            return super().argv(exe, out)
        return [exe, "--plan", self.plan, "--variant", str(hc.variant_of(self.plan)), "--heap",
                str(self.heap), "--workers", str(self.workers), "--mutators", str(self.mutators),
                "--programs", str(self.programs), "--ops", str(self.ops), "--out", out] + self.extra


def matrix(tier, focus):
    """focus: 'gc' (C11, C14, C15), 'weak' (C13), 'fork' (C16)."""
    runs = []
    if focus == "weak":
        extra = ["--weak-chains", "3"]
        if tier == "quick":
            for i, p in enumerate(GC_PLANS):
                runs.append(SRun(p, "weak", driver="scheddrive", workers=1 + i % 4, mutators=1 + i % 2, programs=4,
                                 ops=90, extra=extra, seed_off=i))
        else:
            for p in GC_PLANS:
                for j, w in enumerate([1, 2, 4, 8]):
                    runs.append(SRun(p, "weak", driver="scheddrive", workers=w, mutators=1 + j % 3, programs=15, ops=150,
                                     extra=["--weak-chains", str(1 + j)], seed_off=j))
        return runs
    if focus == "fork":
        if tier == "quick":
            for i, p in enumerate(["SemiSpace", "GenImmix", "MarkSweep", "Immix", "ConcurrentImmix",
                                   "MarkCompact"]):
                runs.append(SRun(p, "fork", driver="scheddrive", workers=1 + i % 4, mutators=1, programs=2, ops=60,
                                 extra=["--fork-cycles", "6"], seed_off=i))
        else:
            for p in PLANS:
                for j, w in enumerate([1, 2, 4, 8]):
                    runs.append(SRun(p, "fork", driver="scheddrive", workers=w, mutators=1 + j % 2, programs=3, ops=80,
                                     extra=["--fork-cycles", "40" if p != "NoGC" else "10"],
                                     seed_off=j, timeout=600))
            runs.append(SRun("SemiSpace", "shutdown", driver="scheddrive", workers=3, programs=2, ops=60,
                             extra=["--fork-cycles", "3", "--shutdown"], seed_off=9))
        return runs
    if tier == "quick":
        # scheddrive: same kind of random programs as gcdrive but no heap walk / allocation events,
        # so the traces contain (almost) only scheduler events
        for i, p in enumerate(PLANS):
            runs.append(SRun(p, "a", driver="scheddrive", workers=1 + i % 4, mutators=1 + i % 3,
                             programs=3, ops=70, seed_off=i))
            if p != "NoGC":
                runs.append(SRun(p, "b", driver="scheddrive", workers=1 + (i + 2) % 4, mutators=2,
                                 programs=2, ops=70, heap=8, seed_off=20 + i))
        # complete concurrent cycles (allocation-triggered InitialMark ... FinalMark pauses): the
        # concurrent-marking mode of the whole-system driver; user requests only give Full pauses
        for w in (1, 3):
            runs.append(SRun("ConcurrentImmix", "conc", workers=w, mutators=2, programs=2, ops=40,
                             heap=12, sems="0,0,0,2,1", seed_off=40 + w,
                             extra=["--mode", "satb", "--rounds", "3"]))
    else:
        for p in PLANS:
            for j, w in enumerate([1, 2, 4, 8]):
                runs.append(SRun(p, "a", driver="scheddrive", workers=w, mutators=1 + j % 3,
                                 programs=8, ops=120, seed_off=j))
                if p != "NoGC" and w in (2, 8):
                    runs.append(SRun(p, "small", driver="scheddrive", workers=w, mutators=2,
                                     programs=8, ops=120, heap=6, seed_off=10 + j))
            if p != "NoGC":
                # the whole-system driver too (LOS, pinning roots, bind/destroy of mutators, walker)
                runs.append(SRun(p, "gcd", workers=3, mutators=2, programs=6, ops=120, seed_off=29,
                                 extra=["--bind"]))
                runs.append(SRun(p, "stress", driver="scheddrive", workers=3, programs=5, ops=100,
                                 opts="", seed_off=30, heap=5))
                runs.append(SRun(p, "rel", driver="scheddrive", workers=4, programs=8, ops=120,
                                 seed_off=31, release=True))
        for j, w in enumerate([1, 2, 4, 8]):
            runs.append(SRun("ConcurrentImmix", "conc", workers=w, mutators=1 + j % 2, programs=4,
                             ops=60, heap=12, sems="0,0,0,2,1", seed_off=40 + j,
                             extra=["--mode", "satb", "--rounds", str(3 + j % 3)]))
    return runs


CYCLE = ("PollEmpty", "Park", "LastParkedEnter", "LastParked", "Notify", "Unpark")


def compact(lines):
    """Drop exact repetitions of the busy-wait cycle of a last parked worker (PollEmpty, Park,
    LastParkedEnter, LastParked(WakeAll), Notify, Unpark - six lines identical to the six before
    them, nothing in between): while the worker it woke has not yet re-acquired the monitor the
    real scheduler repeats this cycle thousands of times. The replay is deterministic and the
    cycle leaves the specification state unchanged after its first execution, so validating one
    repetition validates all. Returns (lines, dropped_cycles)."""
    def is_cycle(i):
        if i + 6 > len(lines):
            return False
        return all(lines[i + k].startswith('{"ev":"%s"' % CYCLE[k]) for k in range(6))
    out, i, dropped = [], 0, 0
    while i < len(lines):
        if is_cycle(i) and len(out) >= 6 and out[-6:] == lines[i:i + 6]:
            i += 6
            dropped += 1
            continue
        out.append(lines[i])
        i += 1
    return out, dropped


def make_keyfn(run, prefixes):
    def keyfn(row):
        tag = row.get("_tag") or "untagged"
        if tag == "crash":
            return hc._crash_key(row, run)
        if not any(tag.startswith(p) for p in prefixes):
            return None
        return "%s:%s" % (tag, run.plan)
    return keyfn


def execute(ctx, runs, prefixes, par_run=6, par_tlc=6):
    exes = {}
    for drv, fs, rel in sorted({(r.driver, r.feats, r.release) for r in runs}):
        exes[(drv, fs, rel)] = ctx.build(drv, features=list(fs), release=rel)
    outdir = os.path.join(ctx.work, "traces")
    os.makedirs(outdir, exist_ok=True)

    def do_run(r):
        out = os.path.join(outdir, r.label + ".ndjson")
        if os.path.exists(out):
            os.remove(out)
        rc, o = ctx.run(r.argv(exes[(r.driver, r.feats, r.release)], out), timeout=r.timeout,
                        env={"VERIF_SEED": str(ctx.seed * 100 + r.seed_off)})
        if not os.path.exists(out):
            raise vf.ToolError("gcdrive produced no trace for %s: rc=%s %s" % (r.label, rc, o[-1500:]))
        lines = open(out, errors="replace").read().splitlines()
        if lines and not lines[-1].endswith("}"):
            lines = lines[:-1]
        has_crash = any(l.startswith('{"ev":"Crash"') for l in lines[-5:])
        if rc != 0 and not has_crash:
            tail = re.sub(r"[^\x20-\x7e]", " ", o[-300:])
            if rc == -9:
                lines.append(json.dumps({"ev": "Crash", "msg": "hang (no progress within %d s) %s" % (
                    r.timeout, tail), "loc": "process", "hang": 1, "th": -1}))
            else:
                lines.append(json.dumps({"ev": "Crash", "msg": "process died rc=%s %s" % (rc, tail),
                                         "loc": "process", "th": -1}))
        lines, dropped = compact(lines)
        with open(out, "w") as f:
            f.write("\n".join(lines) + "\n")
        return r, out, dropped

    with cf.ThreadPoolExecutor(par_run) as ex:
        results = list(ex.map(do_run, runs))

    stats = {"runs": 0, "events": 0, "busy_wait_cycles_compacted": sum(x[2] for x in results)}

    def do_val(item):
        r, out, _ = item
        res = ctx.tlc_trace("Trace_Scheduler.tla", "Trace_Scheduler.cfg", out, spec_dir=SD,
                            name="s_" + r.label, keyfn=make_keyfn(r, prefixes), replay_whole=True,
                            what="scheduler trace of %s rejected by Trace_Scheduler" % r.label,
                            timeout=1500)
        log = open(os.path.join(ctx.work, "tlc_s_%s.log" % r.label)).read()
        st = {}
        m = re.search(r"SCHED_STATS \[(.*?)\]", log)
        if m:
            for kv in m.group(1).split(","):
                k, v = kv.split("|->")
                st[k.strip()] = int(v.strip())
        return r, res, st

    with cf.ThreadPoolExecutor(par_tlc) as ex:
        for r, res, st in ex.map(do_val, results):
            for k, v in st.items():
                stats[k] = stats.get(k, 0) + v
            stats["events"] += res["events"]
            stats["runs"] += 1
    if results:
        ctx.sample_lines(results[0][1], 8, 300)
    gc_traces = [x[1] for x in results if x[0].plan != "NoGC" and not x[0].extra[:1] == ["--gate"]]
    stats["_first_trace"] = gc_traces[0] if gc_traces else None
    return stats


def binding_demo(ctx, trace):
    """Vacuity control of the binding (DESIGN section 7): corrupt one logged field / drop one event
    of an ACCEPTED trace and confirm that Trace_Scheduler rejects each corrupted copy."""
    lines = open(trace).read().splitlines()
    def first(pred):
        return next((i for i, l in enumerate(lines) if pred(l)), None)
    muts = {}
    i = first(lambda l: l.startswith('{"ev":"LastParked"') and '"result":"WakeAll"' in l)
    if i is not None:
        muts["result-WakeAll-to-WakeSelf"] = lines[:i] + [lines[i].replace("WakeAll", "WakeSelf")] + lines[i + 1:]
    i = first(lambda l: l.startswith('{"ev":"MakeRequest"') and '"newly":true' in l)
    if i is not None and lines[i + 1].startswith('{"ev":"Notify"'):
        muts["drop-notify-after-make-request"] = lines[:i + 1] + lines[i + 2:]
    i = first(lambda l: l.startswith('{"ev":"Park"') and '"all":false' in l)
    if i is not None:
        muts["parked-count-off-by-one"] = lines[:i] + [re.sub(r'"parked":(\d+)', lambda m: '"parked":%d' % (int(m.group(1)) + 1), lines[i])] + lines[i + 1:]
    i = first(lambda l: l.startswith('{"ev":"BucketOpen"') and '"stage":3,' not in l)
    if i is not None:
        muts["drop-one-bucket-open"] = lines[:i] + lines[i + 1:]
    i = first(lambda l: l.startswith('{"ev":"PacketStart"') and "ScanMutatorRoots" in l)
    if i is not None:
        muts["packet-started-twice"] = lines[:i + 1] + ['{"ev":"PacketEnd","w":%s,"th":%s}' % (
            json.loads(lines[i])["w"], json.loads(lines[i])["th"]), lines[i]] + lines[i + 1:]
    out = {}
    for name, ls in muts.items():
        pth = os.path.join(ctx.work, "demo_%s.ndjson" % name)
        with open(pth, "w") as f:
            f.write("\n".join(ls) + "\n")
        rc, o, _ = ctx._tlc(SD, "Trace_Scheduler.tla", "Trace_Scheduler.cfg", "demo_" + name, 1, 900,
                            jvm=vf.TRACE_JVM, env={"TRACE": pth})
        tags = sorted(set(re.findall(r"ROW_REJECTED l=\d+ tag=([^\s\"]+)", o)))
        if not tags and "TRACE_REJECTED" not in o:
            raise vf.ToolError("binding demonstration: corrupted trace %s was accepted" % name)
        out[name] = tags[:3] or ["TRACE_REJECTED"]
    ctx.cov["binding_demo"] = out
    vf.log("binding demonstration: %s" % out)


def design_mc(ctx, prop, cfgs_quick, cfgs_thorough=()):
    """Model-check the configurations of spec/scheduler that belong to `prop` and the mutants
    registered for it."""
    cfgs = list(cfgs_quick) + (list(cfgs_thorough) if ctx.tier == "thorough" else [])
    for c in cfgs:
        ctx.tlc_mc("Scheduler.tla", c, spec_dir=SD, workers=4, timeout=3000)
    for m, p in sorted(MUTANTS.items()):
        if p != prop or (m in SLOW_MUTANTS and ctx.tier != "thorough"):
            continue
        if m in SLOW_MUTANTS:
            # liveness mutant: TLC says "Temporal property X was violated", which vf.tlc_mc's
            # pattern does not cover; judged here
            name = "MC_Scheduler_mutant_%s" % m
            rc, out, wall = ctx._tlc(SD, "Scheduler.tla", name + ".cfg", name, 2, 1800, xmx="6g")
            st = ctx._stats(out)
            if rc == -9 or not re.search(r"Temporal propert\w+ .*violated", out):
                raise vf.ToolError("liveness mutant %s was NOT rejected by TLC" % name)
            vf.log("TLC %s: %d distinct, %.1fs VIOLATED (temporal)" % (name, st["distinct"], wall))
            ctx.cov["mc_runs"].append({"name": name, "states": st["distinct"],
                                       "transitions": st["generated"], "depth": st["depth"],
                                       "wall_s": round(wall, 1), "mutant_rejected": True})
            continue
        ctx.tlc_mc("Scheduler.tla", "MC_Scheduler_mutant_%s.cfg" % m, spec_dir=SD,
                   expect_violation=True, workers=2, timeout=900)


RULE = ("one trace = one gcdrive process (plan x worker count x configuration) running seeded random "
        "mutator programs with forced and allocation-triggered collections; every scheduler event of "
        "the run is one validated step; gc_ends = completed collections (pauses), found_more_* = "
        "last-parked callbacks that opened stages / scheduled sentinels / saw designated work")
