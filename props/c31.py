"""C31 — address-to-space resolution is total and exact.
Spec: spec/addrspace/AddrSpace.tla (space-map indexing: SFT index / has_sft_entry, descriptor index
against MAX_SPACES slots, over the whole address universe; TLC checks totality, granted => resolves,
SFT/descriptor agreement, outside => empty, and rejects an index-mask mutant; the implemented
descriptor index is rejected for totality - the design-level form of the known finding).
Binding: gcdrive --mode lookup under every plan asks the real code (SFT_MAP.get_checked,
is_in_mmtk_spaces, is_mapped_address, VM_MAP.get_descriptor_for_address) for a grid of addresses;
Trace_AddrSpace.tla judges every row against the space table and the live grants of the same run."""
import os

import vf
from props import space_common as sc

META = {
    "level": "model_checking",
    "text": "AddrSpace.tla models the 64-bit space map (SFT index and bounds, Map64 descriptor index "
            "into MAX_SPACES slots, heap range = slots 1..MAX_SPACES) and TLC evaluates every lookup "
            "of every address of a scaled address universe in every reachable space configuration: "
            "no panic, granted => resolves to the granting space with its descriptor, SFT and "
            "descriptor agree, outside every slot => empty and not in MMTk; a too-short index mask "
            "and the implemented (unbounded) descriptor index are rejected. The real lookups are "
            "queried after real allocations and collections under all eleven plans (Map64 + space "
            "map; compressed-pointer layout: Map32 + sparse chunk map; malloc_mark_sweep build: dense "
            "chunk map) at 8, space/slot/heap/side-metadata boundaries +-8, edges of every granted "
            "range, 2^47, the top of the address space, stack/static/malloc addresses and seeded "
            "random addresses; TLC validates each answer against the space table and the live grants "
            "reconstructed from the same trace.",
    "note": "Trusted: TLC, the accessor hooks, the query harness (a panic inside a query is caught "
            "and recorded as data). Checked in the sound direction only: inside a space's slot but "
            "outside its granted memory nothing is required (the space map resolves such addresses "
            "to the space by design). 'All addresses' = boundary grid + ~10^3 random addresses per "
            "run, not 2^64.",
    "technique": "TLA+ spec (AddrSpace.tla) model-checked with TLC incl. mutants; recorded lookups "
                 "of the real maps validated row by row with TLC (Trace_AddrSpace.tla)",
}
SPEC_DIR = "addrspace"
TRACE_SPEC = ("Trace_AddrSpace.tla", "Trace_AddrSpace.cfg")


def matrix(tier):
    runs = []
    q = tier == "quick"
    for p in sc.PLANS:
        runs.append(sc.SRun(p, name="lk", heap=24, sems="0,1,2,6", programs=0,
                            extra=["--mode", "lookup", "--rounds", "1" if q else "3",
                                   "--random", "60" if q else "400"]))
    comp = ["Immix", "SemiSpace", "MarkSweep"] if q else sc.PLANS
    for p in comp:
        runs.append(sc.SRun(p, layout="compressed", name="lk", heap=24, sems="0,1,2,6", programs=0,
                            seed_off=1, extra=["--mode", "lookup", "--rounds", "1" if q else "3",
                                               "--random", "60" if q else "400"]))
    if not q:
        for p in sc.PLANS:
            # (ConcurrentImmix + vo_bit: the walker's enumerate_objects during a concurrent phase
            # is outside the API contract - LOS asserts "Collection nursery is not empty")
            if p != "ConcurrentImmix":
                runs.append(sc.SRun(p, feats=["vo_bit"], name="lkvo", heap=12, sems="0,1,2,6", programs=0,
                                    seed_off=2, extra=["--mode", "lookup", "--rounds", "2"]))
            runs.append(sc.SRun(p, name="lkrel", heap=24, sems="0,1,2,6", programs=0, release=True,
                                seed_off=3, extra=["--mode", "lookup", "--rounds", "2"]))
    return runs


def keyfn_of(run):
    def keyfn(row):
        tag = row.get("_tag") or "untagged"
        if tag == "crash":
            return sc.crash_key(row, run.plan)
        if not tag.startswith("C31:"):
            return None
        if tag.startswith("C31:panic:"):
            # the function and the address class identify the finding, whatever the plan
            return tag + (":" + run.layout if run.layout else "")
        return "%s:%s:%s%s" % (tag, run.plan, "+".join(run.feats) or "default",
                               ":" + run.layout if run.layout else "")
    return keyfn


def run(ctx):
    sd = os.path.join(vf.SPEC, SPEC_DIR)
    sc.mc_parallel(ctx, sd, "AddrSpace.tla", [
        ("MC_AddrSpace.cfg" if ctx.tier == "quick" else "MC_AddrSpace_big.cfg",
         dict(workers=2, timeout=900, require_actions=["Create"])),
        ("MC_AddrSpace_impl.cfg", dict(workers=1, timeout=600)),
        ("MC_AddrSpace_mutant_descindex.cfg", dict(workers=1, expect_violation=True, timeout=300)),
        ("MC_AddrSpace_mutant_mask.cfg", dict(workers=1, expect_violation=True, timeout=300))])
    runs = matrix(ctx.tier)
    if ctx.tier != "quick":
        # dense chunk map: only with the malloc mark-sweep build, where it builds
        try:
            ctx.build("gcdrive", features=["malloc_mark_sweep"])
            for p in ["Immix", "SemiSpace", "GenImmix", "StickyImmix"]:  # (plan MarkSweep would allocate in the MallocSpace: outside this check)
                runs.append(sc.SRun(p, feats=["malloc_mark_sweep"], name="lkmms", heap=24,
                                    sems="0,1,2,6", programs=0,
                                    seed_off=4, extra=["--mode", "lookup", "--rounds", "2"]))
        except vf.ToolError as e:
            ctx.assumptions.append("malloc_mark_sweep build omitted (does not build): %s" % e)
    exes = sc.build_all(ctx, runs)
    items = sc.run_all(ctx, runs, exes, sc.LOOKUP_EVENTS)
    st = sc.validate_all(ctx, items, sd, TRACE_SPEC[0], TRACE_SPEC[1], keyfn_of,
                         "address lookup rejected by AddrSpace", "LOOKUP_STATS")
    ctx.sample_lines(items[0][1], 4, 400)
    if ctx.tier != "quick":
        demo_src = next(out for r, out, _ in items if r.plan == "Immix" and not r.layout)

        def unresolve(lines):      # the address of a live (rooted) object reported as unresolved
            import re as _re
            for k, x in enumerate(lines):
                if x.startswith('{"ev":"Lookup","why":"objStart"') and '"sft":"empty"' not in x:
                    return lines[:k] + [_re.sub(r'"sft":"[^"]*"', '"sft":"empty"', x)] + lines[k + 1:]
            return None

        def misattribute(lines):   # an address below the heap reported as belonging to a space
            for k, x in enumerate(lines):
                if x.startswith('{"ev":"Lookup","why":"low"'):
                    return lines[:k] + [x.replace('"sft":"empty"', '"sft":"immix"').replace('"in":"f"', '"in":"t"')] + lines[k + 1:]
            return None
        sc.binding_demo(ctx, sd, TRACE_SPEC[0], TRACE_SPEC[1], demo_src, "unresolved", unresolve,
                        "C31:granted-unresolved")
        sc.binding_demo(ctx, sd, TRACE_SPEC[0], TRACE_SPEC[1], demo_src, "misattributed", misattribute,
                        "C31:sft-")
    ctx.cov["driver"] = st
    ctx.cov["exhaustive"] = False
    ctx.cov["rule"] = ("rows = addresses queried (each row = four real lookups); granted = rows whose "
                       "address lies in a live grant; outside = rows outside every space's range")
    ctx.cov["plans"] = sc.PLANS
    ctx.cov["maps"] = sorted({("Map32+sparse" if r.layout else
                               "Map64+dense" if "malloc_mark_sweep" in r.feats else "Map64+space")
                              for r in runs})
