"""C24 — side-metadata tables in use by one configuration never alias.
Spec: spec/metalayout/MetaConfig.tla (extends MetaLayout: the layout rules side_metadata_offset_after,
the two core chains, side_first/side_after for the VM's per-object metadata, the reservation) —
TLC evaluates, with the real table shapes and 47-bit arithmetic on wide numbers, every declaration
of the VM's metadata (in header / on the side, every declaration order).
Binding: gcdrive --mode layout boots every plan in every feature build (and ShadowVM placement
variant) and logs each space's SideMetadataContext, its address range, the core chains, the VM's
declaration and the reservation; Trace_MetaConfig.tla recomputes all offsets with the rules and
decides disjointness / containment for the logged active set and for every other VM declaration."""
import os
import re

import vf
from props import heapcommon as hc
from props import space_common as sc

META = {
    "level": "model_checking",
    "text": "MetaConfig.tla states the layout rules and TLC checks, for the real table shapes (3 core "
            "global, 16 core local, 5 VM specs; exact 47-bit arithmetic) and all 130 declarations of "
            "the VM's per-object metadata (2 x all ordered subsets of the 4 local specs), that the "
            "documented layout gives every table its own 8-aligned range inside the reservation, that "
            "the implemented 64-bit layout still separates tables of the same kind, and rejects the "
            "implemented local base for full disjointness (a VM global side table shares its offset "
            "with the first core local table) and a chain rule that forgets a table's own offset. "
            "For every plan x feature build x ShadowVM placement variant the real MMTk is booted and "
            "the SideMetadataContext of every space, the spaces' address ranges and the reservation "
            "are logged; TLC checks that all logged offsets equal the rules' computation, that the "
            "tables the configuration uses have disjoint ranges, cannot address a common metadata "
            "byte given the spaces' address ranges, and end inside the reservation - and repeats the "
            "three checks for every other VM declaration (header/side, order) recomputed by the "
            "rules on the logged active set. Real collections run under the non-default placements.",
    "note": "Trusted: TLC, the accessor hook (it copies the contexts), the ShadowVM placement tables "
            "(declared only through in_header/side_first/side_after). 64-bit target only (chunked "
            "32-bit local metadata is not compiled here). A placement with the mark bit in the header "
            "cannot run collections (ImmixSpace: 'cyclic mark bits is not supported'), it is laid out "
            "and checked but not run. Feature builds that do not build offline are listed in "
            "`assumptions`.",
    "technique": "TLA+ spec (MetaConfig.tla on MetaLayout.tla) model-checked with TLC incl. mutants; "
                 "logged side-metadata contexts of every plan/feature/placement validated with TLC "
                 "(Trace_MetaConfig.tla), which also enumerates all VM declarations per configuration",
}
SPEC_DIR = "metalayout"
TRACE_SPEC = ("Trace_MetaConfig.tla", "Trace_MetaConfig.cfg")
QUICK_BUILDS = [(), ("vo_bit",), ("object_pinning",)]
THOROUGH_BUILDS = [("immortal_as_nonmoving",), ("marksweep_as_nonmoving",), ("immix_smaller_block",),
                   ("malloc_mark_sweep",), ("malloc_mark_sweep", "marksweep_as_nonmoving"),
                   ("object_pinning", "vo_bit"), ("immix_non_moving",),
                   ("sticky_immix_non_moving_nursery",)]
RUNNABLE_PLACEMENTS = [1, 3, 5, 6]      # mark bit on the side (ImmixSpace cannot cycle header mark bits)


def keyfn(row):
    tag = row.get("_tag") or "untagged"
    if tag == "crash":
        return sc.crash_key(row, row.get("plan", "?"))
    if not tag.startswith("C24:"):
        return None
    parts = tag.split(":")
    if parts[1] in ("range-overlap", "hyp-range-overlap", "alias", "hyp-alias") and len(parts) >= 3:
        # the pair of tables identifies the finding, whichever plan / build shows it
        pair = "~".join(sorted(parts[2].split("~")))
        return "C24:%s:%s" % (parts[1].replace("hyp-", ""), pair)
    return "%s:%s:%s:p%s" % (tag, row.get("plan"), row.get("features") or "default", row.get("placement"))


def layout_runs(feats, placements=(0,)):
    runs = []
    for p in sc.PLANS:
        for pl in placements:
            runs.append(sc.SRun(p, feats=list(feats), name="lay%d" % pl, programs=0, heap=24,
                                variant_bits=pl << 2, extra=["--mode", "layout"]))
    return runs


def run(ctx):
    sd = os.path.join(vf.SPEC, SPEC_DIR)
    sc.mc_parallel(ctx, sd, "MetaConfig.tla", [
        ("MC_MetaConfig.cfg", dict(workers=2, timeout=900)),
        ("MC_MetaConfig_impl.cfg", dict(workers=2, timeout=900)),
        ("MC_MetaConfig_mutant_localbase.cfg", dict(workers=1, expect_violation=True, timeout=600)),
        ("MC_MetaConfig_mutant_offset.cfg", dict(workers=1, expect_violation=True, timeout=600))]
        + ([("MC_MetaConfig_b13.cfg", dict(workers=2, timeout=900))] if ctx.tier != "quick" else []))
    groups = [(fs, (0,)) for fs in QUICK_BUILDS]
    omitted = []
    if ctx.tier != "quick":
        groups += [(fs, (0,)) for fs in THOROUGH_BUILDS]
        groups += [(("placements",), tuple(range(1, 8))), (("object_pinning", "placements"), tuple(range(1, 8)))]
    total_rows, configs = 0, 0
    hyp = 0
    ready = []
    for fs, placements in groups:
        runs = layout_runs(fs, placements)
        try:
            exes = sc.build_all(ctx, runs)
        except vf.ToolError as e:
            omitted.append("+".join(fs))
            ctx.assumptions.append("feature build %s omitted: %s" % ("+".join(fs), str(e)[:200]))
            continue
        items = sc.run_all(ctx, runs, exes, ("Layout", "Crash"), par=8)
        group = os.path.join(ctx.work, "layouts_%s.ndjson" % ("+".join(fs) or "default"))
        with open(group, "w") as o:
            for _r, out, _raw in items:
                o.write(open(out).read())
        ready.append((fs, group))

    def validate(job):
        fs, group = job
        label = "+".join(fs) or "default"
        rows = sum(1 for _ in open(group))
        ctx.tlc_trace(TRACE_SPEC[0], TRACE_SPEC[1], group, spec_dir=sd, keyfn=keyfn,
                      name="t_layouts_" + label, ntraces=rows,
                      what="side-metadata layout of a configuration rejected by MetaConfig "
                           "(build %s)" % label, timeout=1800)
        log = open(os.path.join(ctx.work, "tlc_t_layouts_%s.log" % label)).read()
        sc.report_extra_tags(ctx, log, group, keyfn, "side-metadata layout of a configuration rejected "
                             "by MetaConfig (build %s)" % label)
        return rows, sum(int(n) for n in re.findall(r"HYP_DECLS l=\d+ n=(\d+)", log))

    import concurrent.futures as cf
    with cf.ThreadPoolExecutor(4) as ex:
        for rows, h in ex.map(validate, ready):
            total_rows += rows
            configs += rows
            hyp += h
    if ready:
        ctx.sample(open(ready[0][1]).readline()[:1200])
    if ctx.tier != "quick" and ready and not ready[0][0]:
        def shift_table(lines):    # the mark-bit table of every space moved into its neighbour
            import json as _j
            r = _j.loads(next(x for x in lines if '"plan":"Immix"' in x))
            for s_ in r["spaces"]:
                for x in s_["l"]:
                    if x["n"] == "VMLocalMarkBitSpec":
                        x["oh"] -= 1024
            return [_j.dumps(r, separators=(",", ":"))]
        sc.binding_demo(ctx, sd, TRACE_SPEC[0], TRACE_SPEC[1], ready[0][1], "shifted_table",
                        shift_table, "C24:range-overlap")
    ctx.cov["configurations"] = configs
    ctx.cov["hypothetical_declarations_checked"] = hyp
    ctx.cov["builds"] = ["+".join(fs) or "default" for fs, _ in groups if "+".join(fs) not in omitted]
    ctx.cov["exhaustive"] = True
    ctx.cov["rule"] = ("one row = one booted configuration (plan x feature build x placement variant); "
                       "for rows with everything on the side TLC additionally checks every other VM "
                       "declaration (hypothetical_declarations_checked = sum over rows)")
    if ctx.tier != "quick" and "placements" not in omitted:
        # real collections under the non-default placements (HeapTrace judges them: C01/C02/C04 guards)
        runs = []
        for i, pl in enumerate(RUNNABLE_PLACEMENTS):
            for p in sc.PLANS:
                if p == "NoGC":
                    continue
                runs.append(hc.Run(p, feats=["placements"], name="pl%d" % pl, programs=6, ops=150,
                                   variant_bits=pl << 2, seed_off=20 + i))
        st = hc.execute(ctx, runs, ("C01:", "C02:", "C04:"))
        ctx.cov["placement_gc_runs"] = st
