"""C36 — the large-object treadmill accounts for every object exactly once (component level).
Spec: spec/treadmill/Treadmill.tla — the four treadmill sets, one action per treadmill call, the
LargeObjectSpace protocol as action guards; TLC checks Partition / phase emptiness / accounting /
exact sweep on all protocol-consistent histories of a small object universe and rejects three
broken variants. Binding: d_policy treadmill drives the real util::treadmill::TreadMill through
the LOS call protocol on every history up to a depth (+ random long ones), logging each call with
the four real sets; Trace_Treadmill walks the history tree and judges every call."""
import json
import os
import re
import vf

META = {
    "level": "model_checking",
    "text": "TLC explores every LOS-protocol-consistent history of add/flip/copy/collect over 4 "
            "(thorough: 5) objects in Treadmill.tla and proves that each tracked object is in "
            "exactly one of the four sets, that collect sets are empty outside a GC and the "
            "allocation nursery inside one, and that a GC sweeps exactly the unmarked objects of "
            "the collected sets, each once, keeping every marked one; three broken variants are "
            "rejected. The real TreadMill is then driven through every protocol-consistent history "
            "up to a fixed length on <= 4 objects (a prefix-sharing tree) plus seeded random long "
            "histories, and TLC validates every recorded call (guard, resulting four sets, swept "
            "objects, enumerations, emptiness queries) against the specification.",
    "note": "Component level: the caller side is a transcription of the treadmill-related lines "
            "of LargeObjectSpace (mark/nursery bits decide which calls are made); the whole-system "
            "harness observes the same sets during real GCs. Trusted: TLC, the hooks "
            "TreadMill::verif_sets/verif_enumerate, the harness JSON writer. Single-threaded: the "
            "mutex around the sets is not exercised concurrently here.",
    "technique": "TLA+ spec (Treadmill.tla) model-checked with TLC; histories of the real "
                 "TreadMill validated call by call with TLC (Trace_Treadmill.tla, tree walk)",
}
SPEC_DIR = "treadmill"
TRACE_SPEC = ("Trace_Treadmill.tla", "Trace_Treadmill.cfg")
MUTANTS = ["flip_keeps_nurseries", "copy_removes_from_other_set", "sweep_to_space"]
ACTIONS = ["Add", "Flip", "Copy", "CollectNursery", "CollectMature"]


def keyfn(row):
    if row.get("ev") == "Crash":
        return "treadmill:crash:" + re.sub(r"\W+", "_", row.get("op", "?"))[:30]
    return "treadmill:" + str(row.get("ev"))


def summary(out):
    m = re.search(r"^SUMMARY (\{.*\})$", out, re.M)
    if not m:
        raise vf.ToolError("driver printed no SUMMARY line:\n" + out[-1500:])
    return json.loads(m.group(1))


def drive(ctx, exe, name, args, timeout=900):
    out = os.path.join(ctx.work, name + ".ndjson")
    rc, o = ctx.run([exe, "treadmill", "--out", out] + [str(a) for a in args], timeout=timeout)
    if rc != 0:
        raise vf.ToolError("d_policy treadmill failed: rc=%s\n%s" % (rc, o[-2000:]))
    return out, summary(o)


def run(ctx):
    sd = os.path.join(vf.SPEC, SPEC_DIR)
    exe = ctx.build("d_policy")
    quick = ctx.tier == "quick"
    ctx.tlc_mc("Treadmill.tla", "MC_Treadmill.cfg", spec_dir=sd, require_actions=ACTIONS)
    if not quick:
        ctx.tlc_mc("Treadmill.tla", "MC_Treadmill_5.cfg", spec_dir=sd, require_actions=ACTIONS,
                   timeout=1500)
    for m in MUTANTS:
        ctx.tlc_mc("Treadmill.tla", "MC_Treadmill_mutant_%s.cfg" % m, spec_dir=sd,
                   expect_violation=True)

    runs = []
    if quick:
        runs.append(("tm_sym", ["--depth", 10, "--nobj", 4, "--random", 20, "--rlen", 300,
                                "--robj", 8]))
        runs.append(("tm_all", ["--depth", 7, "--nobj", 3, "--allids", 1, "--random", 0]))
    else:
        runs.append(("tm_sym", ["--depth", 14, "--nobj", 4, "--random", 0]))
        runs.append(("tm_all", ["--depth", 9, "--nobj", 4, "--allids", 1, "--random", 0]))
        runs.append(("tm_5", ["--depth", 12, "--nobj", 5, "--random", 0]))
        runs.append(("tm_rand", ["--depth", 1, "--nobj", 4, "--random", 200, "--rlen", 500,
                                 "--robj", 12]))
    total_rows = total_hist = 0
    details = []
    first = None
    for name, args in runs:
        out, s = drive(ctx, exe, name, args)
        first = first or out
        total_rows += s["rows"] - 1
        total_hist += s["histories"]
        details.append({"run": name, **s})
        ctx.tlc_trace(TRACE_SPEC[0], TRACE_SPEC[1], out, spec_dir=sd, key="treadmill:row",
                      keyfn=keyfn, ntraces=s["histories"], timeout=1700, xmx="8g",
                      what="a call of the real TreadMill is not a step of Treadmill.tla "
                           "(guard, resulting sets, swept objects or C36 predicate)")
    # sample: skip the root
    try:
        with open(first) as f:
            lines = f.readlines()
        for ln in lines[1:4]:
            ctx.sample(ln.strip()[:500])
    except OSError:
        pass

    if not quick:
        binding_demo(ctx, sd, first)

    in_situ(ctx)

    ctx.cov["rows"] = total_rows
    ctx.cov["histories"] = total_hist
    ctx.cov["driver_runs"] = details
    ctx.cov["exhaustive"] = True
    ctx.cov["rule"] = ("every LOS-protocol-consistent history of treadmill calls up to the stated "
                       "depth on the stated number of objects (allocation picks the lowest free "
                       "id in the 'sym' runs, any free id in the 'all' runs), one trace row per "
                       "real call, histories share prefixes; 'histories' counts maximal histories "
                       "(leaves of the tree + random chains); no-op traces (object already marked "
                       "/ mature object in a nursery GC) make no treadmill call and are pruned")
    ctx.assumptions.append("the LOS caller protocol is the one transcribed in "
                           "harness/d_policy/src/treadmill.rs from policy/largeobjectspace.rs "
                           "(allocate-as-live only during a full-heap GC bracket)")


def binding_demo(ctx, sd, trace):
    """Vacuity control 3: corrupt one logged set of an accepted trace; TLC must reject it."""
    lines = open(trace).read().splitlines()
    idx = next((i for i, l in enumerate(lines) if '"ev":"Copy"' in l), None)
    if idx is None:
        raise vf.ToolError("no Copy row to corrupt")
    row = json.loads(lines[idx])
    row["sets"][1] = []  # the to-space loses the object that was just copied
    lines[idx] = json.dumps(row, separators=(",", ":"))
    bad = os.path.join(ctx.work, "tm_corrupted.ndjson")
    with open(bad, "w") as f:
        f.write("\n".join(lines[:5000]) + "\n")
    # truncated copy: fix dangling links
    n = min(len(lines), 5000)
    fixed = []
    for l in open(bad).read().splitlines():
        r = json.loads(l)
        if r.get("kid", 0) > n:
            r["kid"] = 0
        if r.get("sib", 0) > n:
            r["sib"] = 0
        fixed.append(json.dumps(r, separators=(",", ":")))
    with open(bad, "w") as f:
        f.write("\n".join(fixed) + "\n")
    rc, out, _ = ctx._tlc(sd, TRACE_SPEC[0], TRACE_SPEC[1], "binding_demo", 1, 600,
                          jvm=vf.TRACE_JVM, env={"TRACE": bad})
    rejected = ("ROW_REJECTED l=%d" % (idx + 1)) in out
    ctx.cov["binding_demo"] = {"corrupted_line": idx + 1, "rejected": rejected}
    if not rejected:
        raise vf.ToolError("binding demonstration failed: a corrupted trace was accepted")


def in_situ(ctx):
    """Whole-system part: every plan's large object space(s) during real collections. The heap
    walker reports the four treadmill sets by object identity at every collection end (and at the
    re-walk after a burst of allocations); HeapTrace.tla requires that no object is in two sets and
    that every reachable object of the space is in one (tags C36:...)."""
    from props import heapcommon as hc
    runs = []
    plans = [p for p in hc.PLANS if p != "NoGC"]
    for p in plans:
        if ctx.tier == "quick":
            runs.append(hc.Run(p, name="los", heap=12, workers=3, programs=4, ops=160,
                               sems="0,0,2,2,2", seed_off=30))
        else:
            runs.append(hc.Run(p, name="los", heap=12, workers=4, programs=25, ops=220,
                               sems="0,0,2,2,2", seed_off=30))
            runs.append(hc.Run(p, name="los-tiny", heap=6, workers=2, programs=25, ops=220,
                               sems="0,2,2", seed_off=31))
            runs.append(hc.Run(p, feats=["vo_bit"], name="los-vo", heap=12, workers=8, programs=20,
                               ops=200, sems="0,0,2,2", seed_off=32))
    st = hc.execute(ctx, runs, ("C36:",))
    ctx.cov["in_situ"] = st
    # Large objects allocated while concurrent marking is in progress go straight to the to-space
    # (allocate-as-live): the concurrent-marking mode of C12 keeps such objects reachable over the
    # following cycles; its traces are validated by Trace_SATB (EXTENDS HeapTrace, same C36 guards).
    from props import c12 as satb
    satb.prepare()
    runs2 = satb.satb_runs(ctx.tier, seed_base=40)
    if ctx.tier == "quick":
        runs2 = runs2[:2]
    ctx.cov["in_situ_concurrent_marking"] = hc.execute(ctx, runs2, ("C36:",), par_run=3, par_tlc=4,
                                                       spec=satb.SATB_SPEC)
