"""C09 — garbage is fully reclaimable (no space leak across GC cycles)."""
from props import heapcommon as hc

SPEC_DIR = "heap"
TRACE_SPEC = ("HeapTrace.tla", "HeapTrace.cfg")
META = {
    "level": "model_checking",
    "text": "The driver repeats: allocate 1/4 or 1/2 of the heap with one of four size mixes "
            "(tiny, mixed, mostly small with large objects, large), drop every root, collect "
            "exhaustively (twice for a nursery answer; until concurrent work has finished for "
            "the concurrent plan). HeapTrace.tla (CycleOK) requires per cycle: no allocation "
            "failure and no out_of_memory callback, used pages after the collection <= 16 "
            "(measured floor on the pinned tree: 0 for every plan), and no growth from one cycle "
            "to the next. A crash or hang is a violation. All ten collecting plans.",
    "note": "Trusted: TLC, ShadowVM, memory_manager::used_bytes. 'Any number of cycles' is bounded "
            "by the tier (16 quick, up to 400 thorough).",
    "technique": "TLA+ guard CycleOK (HeapTrace.tla) evaluated by TLC on recorded "
                 "allocate-drop-collect cycles of the real MMTk",
}
PREFIXES = ("C09:",)


def run(ctx):
    st = hc.execute(ctx, hc.cycle_matrix(ctx.tier), PREFIXES)
    ctx.cov.update({"driver": st})
    ctx.cov["rule"] = "one trace = one process running N cycles under one plan; each CycleEnd is judged"
