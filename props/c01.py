"""C01 — collection preserves every reachable object and the reachable graph."""
import os
import vf
from props import heapcommon as hc

SPEC_DIR = "heap"
TRACE_SPEC = ("HeapTrace.tla", "HeapTrace.cfg")
META = {
    "level": "model_checking",
    "text": "Design level: Heap.tla (abstract mutator + relocating collector over a concrete memory "
            "image) is model-checked by TLC for all programs over a few objects, with three collector "
            "mutants (drop a reachable object, leave one slot stale, merge two objects) that TLC must "
            "reject. Conformance: generated mutator programs run on the real MMTk under all eleven "
            "plans (ShadowVM binding: real allocation, barriers, root scanning, moving GCs with "
            "1..8 workers); after every collection a heap walker reports what is really in memory "
            "from the real roots and TLC checks on HeapTrace.tla that the walked graph is exactly "
            "the model's reachable graph (identity, sizes, payload hashes, every field, every root), "
            "and that field loads/overwrites between collections agree with the model.",
    "note": "Trusted: TLC; the ShadowVM binding and the heap walker (reporting only); event order "
            "(single mutator thread, collection reports emitted while mutators are stopped). "
            "Programs are finite (<= 250 operations between resets) and schedules are those the OS "
            "produces; protocol-level schedules are covered by C14-C18.",
    "technique": "TLA+ spec (Heap.tla) model-checked with TLC incl. mutants; traces of real "
                 "collections under all plans validated with TLC against HeapTrace.tla",
}
PREFIXES = ("C01:",)


def run(ctx):
    hc.design_mc(ctx)
    runs = hc.matrix(ctx.tier)
    st = hc.execute(ctx, runs, PREFIXES)
    ctx.cov.update({"driver": st})
    # directed old-to-young programs of the generational family (mode gen, validated by
    # Trace_GenRemset which EXTENDS HeapTrace): the graph guards apply to them as well
    from props import c05
    hc.HEAP_EVENTS |= c05.MY_EVENTS
    gruns = [c05.gen_run(p, "gen", programs=3 if ctx.tier == "quick" else 10, ops=60, seed_off=7)
             for p in c05.PLANS]
    ctx.cov["driver_generational_directed"] = hc.execute(
        ctx, gruns, PREFIXES, par_run=3, par_tlc=3,
        spec=("Trace_GenRemset.tla", "Trace_GenRemset.cfg", c05.SD))
    ctx.cov["rule"] = ("one trace = one gcdrive process (plan x feature build x configuration) "
                       "running seeded random programs of allocate/write/load/root/GC operations; "
                       "non-trivial = collections in which objects survived; moved counts objects "
                       "whose address changed")
    ctx.cov["plans"] = hc.PLANS
