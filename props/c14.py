"""C14 — every requested GC completes; no deadlock, no lost wake-up"""
import os
import vf
from props import schedcommon as sc

SPEC_DIR = "scheduler"
TRACE_SPEC = ("Trace_Scheduler.tla", "Trace_Scheduler.cfg")
META = {
    "level": "model_checking",
    "text": "Design level: Scheduler.tla (condvar with explicit waiter set and lost notifications, the unlocked window between an empty poll and parking, last-parked callback, goals, request_flag, buckets, packets with non-deterministic spawn trees) is model-checked for N=2 (quick) and N=3 (thorough) workers: ParkedCountOK, CondvarOK, NoStuck, LastParkedUnique, FlagProtocol, NoPanic; liveness (Served, Settles) under weak fairness with a finite spurious-wake budget (thorough); mutants (no notify in make_request, last parked worker waits with a pending goal, parked counter not decremented, request_flag never cleared, no WakeAll after finding work) must be rejected. The concurrent-phase model with mutator adds violates NoStuck (recorded finding F1). Conformance: real collections under all plans; every Park/LastParked/Unpark/MakeRequest step is replayed through the spec's actions (parked count, chosen goal, ParkSelf/WakeSelf/WakeAll must match), notifier program order is checked, a hang of a run is a violation.",
    "note": 'Trusted: TLC; the add-only event hooks (emitted under WorkerMonitor::sync for lock-protected state, before enabling / after disabling lock-free operations); the ShadowVM binding. Schedules of real runs are those the OS produced (1..8 workers, loaded machine); all interleavings are covered only for the bounded models (N <= 3 workers). Sequential consistency is assumed; packet identity in traces is (type, stage) multisets.',
    "technique": "TLA+ spec (Scheduler.tla) model-checked with TLC incl. mutants; traces of the real "
                 "scheduler (hooks at every critical section / atomic step) validated with TLC against "
                 "Trace_Scheduler.tla, which replays them through the actions of Scheduler.tla",
}
# "no worker stays parked while a pending goal exists when all other workers are parked" also covers
# the fork / shutdown goals: in the fork runs the guards that a pending goal is taken in priority
# order and that the workers exit for it carry C16's tags; C14 claims them there.
PREFIXES = ('C14:', 'C16:goal-priority', 'C16:workers-did-not-exit')


F1_KEY = "NoStuck:concurrent-phase:mutator-add:lost-notify"


def f1_design(ctx):
    """Finding F1: with mutator adds to the open Concurrent bucket the full NoStuck is violated; the
    same model satisfies the weaker NoStuckButMutatorAdds, so every NoStuck violation of that model
    is of the recorded class (only a mutator-added Concurrent packet is left)."""
    r = ctx.tlc_mc("Scheduler.tla", "MC_Scheduler_conc_finding.cfg", spec_dir=sc.SD,
                   expect_violation=True, workers=2, timeout=900)
    log = open(os.path.join(ctx.work, "tlc_MC_Scheduler_conc_finding.log")).read()
    if "Invariant NoStuck is violated" not in log:
        raise vf.ToolError("MC_Scheduler_conc_finding: expected a NoStuck violation")
    ctx.tlc_mc("Scheduler.tla", "MC_Scheduler_conc_mutadd.cfg", spec_dir=sc.SD, workers=4,
               timeout=1500)
    ctx.violation(F1_KEY, "design level: all workers park while a mutator-added packet is runnable "
                          "in the open Concurrent bucket (lost notify_one in the unlocked window)")
    return r


def run(ctx):
    sc.design_mc(ctx, "C14", ["MC_Scheduler_small.cfg"],
                 ["MC_Scheduler.cfg", "MC_Scheduler_live.cfg", "MC_Scheduler_conc.cfg"])
    f1_design(ctx)
    runs = sc.matrix(ctx.tier, "gc")
    # gated attempt to reproduce F1 on the real code (reported as KNOWN-FINDING when it succeeds)
    runs.append(sc.SRun("ConcurrentImmix", "gate-f1", driver="scheddrive", workers=2, mutators=1,
                        heap=16, extra=["--gate", "f1"], seed_off=50))
    # goals other than Gc requested while a collection is in progress (fork cycles racing with GCs)
    fork = sc.matrix(ctx.tier, "fork")
    runs += fork[:3] if ctx.tier == "quick" else fork[::4]
    st = sc.execute(ctx, runs, PREFIXES)
    first = st.pop("_first_trace", None)
    if ctx.tier == "thorough" and first and not ctx.violations:
        sc.binding_demo(ctx, first)
    ctx.cov.update({"driver": st, "rule": sc.RULE, "plans": sc.PLANS})

