"""C05 — generational remembered sets are sound (GenCopy, GenImmix, StickyImmix).
Spec: spec/genremset/GenRemset.tla (+ RemsetOps.tla, the definitions shared with the trace spec).
Binding: gcdrive --mode gen (harness/gcdrive/src/modes_gen.rs) on the real MMTk; traces validated
with TLC against spec/genremset/Trace_GenRemset.tla (EXTENDS HeapTrace)."""
import json
import os
import re

import vf
from props import heapcommon as hc

SPEC_DIR = "genremset"
TRACE_SPEC = ("Trace_GenRemset.tla", "Trace_GenRemset.cfg")
SD = os.path.join(vf.SPEC, SPEC_DIR)
META = {
    "level": "model_checking",
    "text": "Design level: GenRemset.tla models objects with an age and an unlog bit, mutators "
            "whose reference write is two steps (store, then the object barrier: fast path on a "
            "logged source, slow path = exchange 1->0 and push into the thread-local modbuf), the "
            "memory-region-copy barrier, buffer flushes, nursery collections that trace from roots, "
            "remembered objects and remembered slices through young objects only and promote (move) "
            "the survivors, and full-heap collections. TLC checks RemsetSound (every old->young "
            "reference is covered by a modbuf or a region modbuf at every safepoint) and "
            "NurseryKeeps (no root and no field of a reachable object ever refers to a moved or "
            "reclaimed object) for all interleavings over 3 objects (and 2 objects x 2 mutators), "
            "and rejects eight broken variants (no barrier, barrier tests the target, unlog bit not "
            "reset after a nursery GC, modbuf not flushed at GC, promoted / pretenured objects not "
            "unlogged, region barrier tests the source, ProcessModBuf skipped). Conformance: a "
            "directed driver makes Default, LOS, Immortal and NonMoving holders old, stores fresh "
            "young objects and chains into them through the real barrier of several mutators (one "
            "is destroyed with a non-empty modbuf), copies reference arrays with "
            "memory_region_copy, drops all other references and interleaves user- and "
            "allocation-triggered nursery GCs with full-heap GCs; TLC validates every recorded step "
            "(unlog bit before/after each write, barrier slow-path events, flushes, ProcessModBuf "
            "contents, survivors' unlog bits and spaces) against the protocol, evaluates "
            "RemsetSound on the observed state at every collection and, through HeapTrace, "
            "checks after every collection that the walked graph is exactly the reachable graph.",
    "note": "Trusted: TLC; ShadowVM binding, heap walker and the add-only event hooks (reporting "
            "only). The model's young survivors always move (strictest case). Programs are finite; "
            "the object modbuf never reaches its 4096-entry capacity in the directed runs, so the "
            "buffer-full flush is covered at design level and by destroy/GC flushes only. "
            "Schedules are those the OS produces (1..8 GC workers).",
    "technique": "TLA+ spec (GenRemset.tla) model-checked with TLC incl. 8 mutants; traces of real "
                 "nursery/full collections validated with TLC (Trace_GenRemset.tla EXTENDS HeapTrace)",
}
PREFIXES = ("C05:", "C01:", "C02:", "C04:", "C07:")
MY_EVENTS = {"AllocObs", "GenObs", "ModbufFlush", "RegionFlush", "RegionSlow", "RegionCopy",
             "BarrierSlow", "ProcessModBuf", "ProcessRegionModBuf"}
PLANS = ["GenCopy", "GenImmix", "StickyImmix"]
QUICK_MUTANTS = ["no_barrier", "tests_target", "no_reset", "no_flush_at_gc"]
ALL_MUTANTS = QUICK_MUTANTS + ["promoted_logged", "pretenured_logged", "region_tests_source",
                               "skip_modbuf"]
ACTIONS = ["Alloc", "Store", "WriteFast", "WriteSlow", "RegionCopy", "Load", "DropRoot",
           "NurseryGC", "FullGC"]


def gen_run(plan, name, feats=(), workers=3, programs=3, ops=60, heap=24, seed_off=0, opts="",
            sems="0,0,2,1,6", release=False, mutators=2):
    o = "nursery=Fixed:1048576" + ("," + opts if opts else "")
    return hc.Run(plan, feats=feats, name=name, workers=workers, mutators=mutators, heap=heap,
                  programs=programs, ops=ops, sems=sems, opts=o, extra=["--mode", "gen"],
                  seed_off=seed_off, release=release)


def matrix(tier):
    runs = []
    if tier == "quick":
        for p in PLANS:
            runs.append(gen_run(p, "gen", programs=3, ops=60))
            runs.append(gen_run(p, "gen-w1", workers=1, programs=2, ops=50, seed_off=1, mutators=1))
        return runs
    for p in PLANS:
        for i, w in enumerate([1, 2, 3, 4, 6, 8]):
            runs.append(gen_run(p, "gen-w%d" % w, workers=w, programs=8, ops=90, seed_off=i,
                                mutators=1 + i % 2))
        runs.append(gen_run(p, "gen-vo", feats=["vo_bit"], programs=5, ops=70, seed_off=10))
        runs.append(gen_run(p, "gen-vo-small", feats=["vo_bit"], programs=5, ops=70, heap=10,
                            workers=4, seed_off=11))
        runs.append(gen_run(p, "gen-stress", programs=6, ops=80, seed_off=12,
                            opts="stress_factor=262144"))
        runs.append(gen_run(p, "gen-rel", programs=6, ops=80, seed_off=13, release=True))
        runs.append(gen_run(p, "gen-nolos", programs=5, ops=80, seed_off=14, sems="0,0,1,6"))
        runs.append(gen_run(p, "gen-nmimm", feats=["immortal_as_nonmoving"], programs=6, ops=80,
                            seed_off=15))
        runs.append(gen_run(p, "gen-heap48", programs=4, ops=80, seed_off=16, heap=48))
    for p in ["GenImmix", "StickyImmix"]:
        runs.append(gen_run(p, "gen-sb", feats=["immix_smaller_block"], programs=6, ops=80, seed_off=17))
        runs.append(gen_run(p, "gen-ixnm", feats=["immix_non_moving"], programs=6, ops=80, seed_off=18))
        runs.append(gen_run(p, "gen-defrag", programs=6, ops=80, seed_off=19, heap=12,
                            opts="immix_always_defrag=true,immix_defrag_every_block=true"))
    runs.append(gen_run("StickyImmix", "gen-sxnm", feats=["sticky_immix_non_moving_nursery"],
                        programs=5, ops=80, seed_off=20))
    runs.append(gen_run("StickyImmix", "gen-sxnm-vo", feats=["sticky_immix_non_moving_nursery", "vo_bit"],
                        programs=6, ops=90, seed_off=21))
    return runs


def gen_stats(ctx, runs):
    tot = {}
    for r in runs:
        p = os.path.join(ctx.work, "tlc_t_%s.log" % r.label)
        if not os.path.exists(p):
            continue
        m = re.search(r"GEN_STATS \[(.*?)\]", open(p, errors="replace").read())
        if m:
            for kv in m.group(1).split(","):
                k, v = kv.split("|->")
                tot[k.strip()] = tot.get(k.strip(), 0) + int(v.strip())
    return tot


def binding_demo(ctx, runs):
    """Vacuity control of the binding (thorough): corrupt an accepted trace in three ways and
    confirm that the trace specification rejects each."""
    src = os.path.join(ctx.work, "traces", runs[0].label + ".ndjson")
    lines = open(src).read().splitlines()
    res = {}

    def first(pred):
        return next((i for i, l in enumerate(lines) if pred(l)), None)

    variants = {}
    i = first(lambda l: l.startswith('{"ev":"BarrierSlow"'))
    if i is not None:
        variants["drop-BarrierSlow"] = lines[:i] + lines[i + 1:]
    i = first(lambda l: l.startswith('{"ev":"ProcessModBuf"') and '"nursery":true' in l)
    if i is not None:
        variants["drop-ProcessModBuf"] = lines[:i] + lines[i + 1:]
    i = first(lambda l: l.startswith('{"ev":"Write"') and '"ub":1' in l)
    if i is not None:
        variants["unlog-bit-stays-1"] = lines[:i] + [lines[i].replace('"ua":0', '"ua":1')] + lines[i + 1:]
    for name, ls in variants.items():
        p = os.path.join(ctx.work, "demo_%s.ndjson" % name)
        with open(p, "w") as f:
            f.write("\n".join(ls) + "\n")
        rc, out, _ = ctx._tlc(SD, "Trace_GenRemset.tla", "Trace_GenRemset.cfg", "demo_" + name, 1, 900,
                              jvm=vf.TRACE_JVM, env={"TRACE": p})
        tags = sorted(set(re.findall(r"ROW_REJECTED l=\d+ tag=([^\s\"]+)", out)))
        res[name] = tags
        if not tags:
            raise vf.ToolError("binding demonstration: corrupted trace %s was accepted" % name)
    return res


def run(ctx):
    hc.HEAP_EVENTS |= MY_EVENTS
    quick = ctx.tier == "quick"
    ctx.tlc_mc("GenRemset.tla", "MC_GenRemset.cfg", spec_dir=SD, workers=4, timeout=1500,
               require_actions=ACTIONS)
    if not quick:
        for cfg in ("MC_GenRemset_flush.cfg", "MC_GenRemset_2mut.cfg", "MC_GenRemset_sticky.cfg"):
            ctx.tlc_mc("GenRemset.tla", cfg, spec_dir=SD, workers=4, timeout=2400,
                       require_actions=ACTIONS + ["Flush"] if "sticky" not in cfg else ACTIONS)
    for m in (QUICK_MUTANTS if quick else ALL_MUTANTS):
        ctx.tlc_mc("GenRemset.tla", "MC_GenRemset_mutant_%s.cfg" % m, spec_dir=SD, workers=2,
                   expect_violation=True, timeout=900)
    runs = matrix(ctx.tier)
    st = hc.execute(ctx, runs, PREFIXES, par_run=4, par_tlc=4,
                    spec=("Trace_GenRemset.tla", "Trace_GenRemset.cfg", SD))
    ctx.cov.update({"driver": st, "remset": gen_stats(ctx, runs)})
    if not quick:
        ctx.cov["binding_demonstration"] = binding_demo(ctx, runs)
    ctx.cov["rule"] = ("one trace = one gcdrive --mode gen process (plan x feature build x "
                       "configuration) running directed old->young programs; remset.slow = writes "
                       "that took the barrier slow path, oldToYoung = stores of a young object into "
                       "an old one, processed = distinct objects handed to ProcessModBuf in nursery "
                       "GCs; non-trivial = traces with oldToYoung > 0 and nurseryGCs > 0")
    ctx.cov["plans"] = PLANS
