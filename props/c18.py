"""C18 — concurrent mark / log / pin state changes succeed exactly once.
Spec: spec/metacas/MetaCAS.tla — metadata fields (some sharing a metadata byte) and threads running
the real transition loops at atomic-operation granularity: load; compare-exchange (for sub-byte
fields: byte load + byte compare-exchange, as SideMetadataSpec / HeaderMetadataSpec implement it);
retry. TLC checks AtMostOnce and Property (exactly one winner per transitionable field, final value
= transitioned value, neighbours intact) for all scenarios up to 4 threads and rejects five mutants.
Binding: racedrive cas races 2..4 REAL threads on MarkState::test_and_mark, ImmixSpace::attempt_mark,
LargeObjectSpace::test_and_mark, ObjectBarrier::log_object, pin_object / unpin_object and plain
mark / log stores, on side and in-header layouts, neighbouring fields included; every atomic
operation is recorded per thread and TLC (Trace_MetaCAS) searches the interleavings."""
import os

from props import race_common as rc
import vf

META = {
    "level": "model_checking",
    "text": "TLC explores every interleaving of up to 4 threads for every scenario of one contended "
            "field (1-, 2- and 8-bit; mark / LOS mark+nursery / log loops, single-shot pin / unpin) and "
            "of a contended field next to a concurrently updated field of the same or another metadata "
            "byte, checking that exactly one thread wins each possible transition and that the final "
            "value is the transitioned one; the sub-byte compare-exchange is modelled as the "
            "implementation does it (byte load, then byte CAS). Real threads then race the real "
            "transition functions on three metadata layouts (side tables with neighbouring objects in "
            "one byte; two in-header layouts with neighbouring bits in one byte) with seeded schedule "
            "perturbation; all atomic steps are recorded and validated by TLC per round. Real-thread "
            "schedules are sampled; bit positions are covered by the layouts, not exhaustively.",
    "note": "Trusted: TLC, the recorder hook (see C17), the hooks that expose the private "
            "attempt_mark / test_and_mark / log_object. Finding made by this check and repaired in "
            "mmtk-core (fix: pin_object / unpin_object retry ...): the two functions were single "
            "compare-exchanges on a shared byte and failed spuriously when a neighbouring field of "
            "that byte changed concurrently; the unrepaired behaviour is kept as the model mutant "
            "pin_single_shot.",
    "technique": "TLA+ spec at atomic-operation granularity model-checked with TLC (+ mutants, "
                 "+ pre-repair pin model as mutant); real-thread races recorded per atomic step and validated by "
                 "TLC searching the interleavings (Trace_MetaCAS.tla)",
}
SPEC_DIR = "metacas"
TRACE_SPEC = ("Trace_MetaCAS.tla", "Trace_MetaCAS.cfg")
LAYOUTS = {0: "side", 1: "combined", 2: "hdrsplit"}
KEY_PIN = "pin_object:spurious-failure:neighbour-in-same-byte"


def keyfn(row):
    tag = row.get("_tag") or "rejected"
    if tag == "property:pin-spurious":
        return KEY_PIN
    kinds = "+".join(sorted(set(row.get("sc", {}).get("kind", ["?"]))))
    return "cas:%s:%s" % (tag, kinds)


def _corrupt_two_winners(r):
    """Binding demonstration: a thread that did not win reports success."""
    for log in r["logs"]:
        if log and log[-1][0] == "ret" and log[-1][2] == 0 and r["sc"]["kind"][log[-1][1] - 1] != "set":
            log[-1][2] = 1
            return r
    return None


def _corrupt_final(r):
    """Binding demonstration: the final value of a field is not what the operations left."""
    r["final"][0] = 1 - r["final"][0] if r["final"][0] in (0, 1) else 0
    return r


def run(ctx):
    sd = os.path.join(vf.SPEC, SPEC_DIR)
    quick = ctx.tier == "quick"
    builds = [("debug", ctx.build("racedrive"))]
    if not quick:
        builds.append(("release", ctx.build("racedrive", release=True)))

    acts = ["Load", "ByteLoad", "Cas", "PinLoad", "Store", "Return"]
    for n in ((2, 3) if quick else (2, 3, 4)):
        ctx.tlc_mc("MetaCAS.tla", "MC_MetaCAS_%d.cfg" % n, spec_dir=sd, require_actions=acts,
                   workers=4, env=rc.JVM_ENV, timeout=3000)
    if not quick:
        ctx.tlc_mc("MetaCAS.tla", "MC_MetaCAS_live.cfg", spec_dir=sd, workers=4, env=rc.JVM_ENV, count=False)
    # pin_single_shot = pin_object / unpin_object as they were before the repair (mmtk-core commit
    # "fix: pin_object / unpin_object retry ..."): one CAS that fails spuriously next to an active
    # neighbour in the same byte; the model of that code must violate the property
    for m in ("cas_reports_success", "cas_plain", "no_retry", "rmw_store", "pin_single_shot"):
        ctx.tlc_mc("MetaCAS.tla", "MC_MetaCAS_mutant_%s.cfg" % m, spec_dir=sd, expect_violation=True,
                   workers=1, env=rc.JVM_ENV)

    rounds = 400 if quick else 8000
    jobs, files = [], []
    tot = {"rows": 0, "contended": 0, "shared_byte": 0}
    for bname, bexe in builds:
        for v, lname in LAYOUTS.items():
            out = os.path.join(ctx.work, "cas_%s_%s.ndjson" % (bname, lname))
            if not rc.drive(ctx, bexe, ["cas", "--variant", str(v), "--rounds", str(rounds), "--threads", "4"],
                            out, "cas:%s" % bname, timeout=240 if quick else 1200):
                continue
            files.append(out)
            st = rc.stats(out)
            for k in tot:
                tot[k] += st.get(k, 0)
            parts = [out] if quick else rc.split_rows(out, 4, ctx.work, "cas_%s_%s_p" % (bname, lname), "Cfg")
            for p in parts:
                jobs.append(dict(module=TRACE_SPEC[0], cfg=TRACE_SPEC[1], trace=p, spec_dir=sd,
                                 name="trace_" + os.path.splitext(os.path.basename(p))[0],
                                 keyfn=keyfn, key="cas",
                                 what="a recorded race on the real mark/log/pin transition functions is not "
                                      "a behaviour of MetaCAS.tla or violates exactly-once / final state",
                                 ntraces=rc.nrows(p, "Cas")))
    if files:
        ctx.sample_lines(files[0], 3, maxlen=900)
    rc.validate_parallel(ctx, jobs, jobs_at_once=3 if quick else 4)

    if files and (not quick or os.environ.get("VERIF_DEMO")):
        rc.binding_demo(ctx, sd, TRACE_SPEC[0], TRACE_SPEC[1], files[0], "Cas", _corrupt_two_winners, "demo_two_winners")
        rc.binding_demo(ctx, sd, TRACE_SPEC[0], TRACE_SPEC[1], files[-1], "Cas", _corrupt_final, "demo_final")

    ctx.cov["rounds_per_run"] = rounds
    ctx.cov["driver_runs"] = len(files)
    ctx.cov["rows"] = tot["rows"]
    ctx.cov["distinct_nontrivial"] = tot["contended"]
    ctx.cov["rows_with_fields_sharing_a_byte"] = tot["shared_byte"]
    ctx.cov["exhaustive"] = False
    ctx.cov["rule"] = ("one row = one round: 2..4 real threads, each performing one transition on one of 1..3 "
                       "metadata fields; distinct_nontrivial = rounds in which some compare-exchange failed "
                       "(threads really collided); layouts %s x builds %s"
                       % (sorted(LAYOUTS.values()), [b for b, _ in builds]))
    ctx.assumptions.append("sequentially consistent memory (all operations are SeqCst)")
    ctx.assumptions.append("fields of the same metadata byte that are not part of a round do not change "
                           "during the round (the harness owns the objects)")
