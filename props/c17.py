"""C17 — concurrent forwarding copies an object once and all tracers agree.
Spec: spec/forwarding/Forwarding.tla — the forwarding protocol of util/object_forwarding.rs at the
granularity of its atomic operations (one action per load / compare-exchange / store / copy) with
the thread programs of CopySpace::trace_object and ImmixSpace::trace_object_with_opportunistic_copy;
TLC checks CopyOnce / Agree / RetValid / NoTornRead / Quiescent for 2..4 tracers, both layouts of
the forwarding word and both callers, termination of the spin loop under fairness, and rejects
three mutants (bits published before the pointer, CAS replaced by a store, spin loop leaving on
BEING_FORWARDED).
Binding: racedrive fwd races 2..4 REAL threads on the REAL functions over real objects of a booted
MMTK (three metadata layouts: side bits, bits inside the in-header pointer word, both in the header
but apart); the hook verif_steps records every atomic metadata operation per thread; TLC
(Trace_Forwarding) accepts a round iff some interleaving of the per-thread logs is a behaviour of
the specification ending in the observed memory contents, with the property holding."""
import json
import os

from props import race_common as rc
import vf

META = {
    "level": "model_checking",
    "text": "TLC explores every interleaving of 2, 3 and 4 tracers over the forwarding-bits / "
            "forwarding-pointer protocol (both layouts of the forwarding word, copying and "
            "opportunistic-Immix callers, with and without the winner declining, with spurious "
            "sub-byte CAS failures) and checks that exactly one tracer copies, all tracers return the "
            "same reference, and a pointer is only read when it is the winner's; three broken variants "
            "are rejected. Real threads then race the real attempt_to_forward / forward_object / "
            "spin_and_get_forwarded_object / clear_forwarding_bits on three metadata layouts with "
            "seeded schedule perturbation at every atomic step; every atomic step of every thread is "
            "recorded and TLC searches, per round, for an interleaving of the recorded steps that the "
            "specification allows. Schedules of real threads are sampled, not exhausted: that half is "
            "evidence of conformance of the code to the exhaustively checked model, not a proof.",
    "note": "Trusted: TLC; the recorder hook in MetadataSpec::{load_atomic, store_atomic, "
            "compare_exchange_metadata} (it calls the unmodified operation and logs its arguments "
            "and result); the harness replicates the few lines of the two trace_object callers "
            "around the real forwarding functions (the whole-system check C01 runs the real callers "
            "with 8 workers); sequentially consistent memory (all operations in the code are SeqCst; "
            "x86-64).",
    "technique": "TLA+ spec at atomic-operation granularity model-checked with TLC (+ mutants, "
                 "+ liveness); real-thread races recorded per atomic step and validated by TLC "
                 "searching the interleavings (Trace_Forwarding.tla)",
}
SPEC_DIR = "forwarding"
TRACE_SPEC = ("Trace_Forwarding.tla", "Trace_Forwarding.cfg")
LAYOUTS = {0: "side", 1: "combined", 2: "hdrsplit"}


def keyfn(row):
    return "fwd:%s:%s:%s" % (row.get("variant", "?"), row.get("caller", "?"), row.get("_tag") or "rejected")


def _corrupt_ret(r):
    """Binding demonstration: one tracer reports a different reference than it returned."""
    for log in r["logs"]:
        if log and log[-1][0] == "ret":
            log[-1][2] = 0 if log[-1][2] != 0 else 1
            return r
    return None


def _corrupt_drop_cas(r):
    """Binding demonstration: the winner's successful compare-exchange is missing from its log."""
    for log in r["logs"]:
        for i, s in enumerate(log):
            if s[0] == "cas" and s[1] == "bits" and s[4] == 1:
                del log[i]
                return r
    return None


def run(ctx):
    sd = os.path.join(vf.SPEC, SPEC_DIR)
    quick = ctx.tier == "quick"
    exe = ctx.build("racedrive")
    builds = [("debug", exe)]
    if not quick:
        builds.append(("release", ctx.build("racedrive", release=True)))

    # ---- design level: the specification satisfies the property ---------------------------------
    ns = (3,) if quick else (2, 3, 4)
    for n in ns:
        for caller in ("copyspace", "immix"):
            for variant in ("split", "combined"):
                req = ["LoadStatus", "Cas", "Copy", "Spin", "RdPtr", "Return",
                       "StComb" if variant == "combined" else "StBits"]
                if caller == "immix":
                    req += ["ChkMark", "Decide", "MarkCas", "Clear"]
                name = "MC_Forwarding_%s_%s_%d" % (caller, variant, n)
                ctx.tlc_mc("Forwarding.tla", name + ".cfg", spec_dir=sd, workers=2, env=rc.JVM_ENV)
                rc.require_taken(ctx, name, req)
    if not quick:
        ctx.tlc_mc("Forwarding.tla", "MC_Forwarding_live.cfg", spec_dir=sd, workers=2, env=rc.JVM_ENV)
    for m in ("bits_first", "cas_plain", "spin_exit"):
        ctx.tlc_mc("Forwarding.tla", "MC_Forwarding_mutant_%s.cfg" % m, spec_dir=sd,
                   expect_violation=True, workers=1, env=rc.JVM_ENV)

    # ---- conformance: real threads, real functions ------------------------------------------------
    rounds = 250 if quick else 6000
    jobs, files = [], []
    tot = {"rows": 0, "contended": 0, "declined": 0, "prefwd": 0, "copies": 0}
    for bname, bexe in builds:
        for v, lname in LAYOUTS.items():
            for caller in ("copyspace", "immix"):
                out = os.path.join(ctx.work, "fwd_%s_%s_%s.ndjson" % (bname, lname, caller))
                ok = rc.drive(ctx, bexe, ["fwd", "--variant", str(v), "--caller", caller,
                                          "--rounds", str(rounds), "--threads", "4"], out,
                              "fwd:%s" % bname, timeout=240 if quick else 1200)
                if not ok:
                    continue
                files.append(out)
                st = rc.stats(out)
                for k in tot:
                    tot[k] += st.get(k, 0)
                parts = [out] if quick else rc.split_rows(out, 4, ctx.work, "fwd_%s_%s_%s_p" % (bname, lname, caller), "Cfg")
                for p in parts:
                    jobs.append(dict(module=TRACE_SPEC[0], cfg=TRACE_SPEC[1], trace=p, spec_dir=sd,
                                     name="trace_" + os.path.splitext(os.path.basename(p))[0],
                                     keyfn=keyfn, key="fwd",
                                     what="a recorded race on the real forwarding functions is not a "
                                          "behaviour of Forwarding.tla (no interleaving of the "
                                          "per-thread atomic steps explains it / the property fails)",
                                     ntraces=rc.nrows(p, "Fwd")))
    if files:
        ctx.sample_lines(files[0], 3, maxlen=900)
    rc.validate_parallel(ctx, jobs, jobs_at_once=3 if quick else 4)

    # ---- in situ: the real callers (CopySpace::trace_object, Immix opportunistic copy) --------------
    # The races above drive the forwarding functions through re-implementations of their callers'
    # protocols; the callers themselves run in whole collections with several workers, hub objects
    # that many roots refer to, and a delay inside ObjectModel::copy (the winner holds the object in
    # the "being forwarded" state). A tracer that returns anything but the winner's copy shows as a
    # wrong graph: HeapTrace's graph guards (C01 tags) are claimed here.
    from props import heapcommon as hc
    plans = ["SemiSpace", "GenCopy"] if quick else ["SemiSpace", "GenCopy", "GenImmix", "Immix", "StickyImmix"]
    wruns = []
    for i, p in enumerate(plans):
        wruns.append(hc.Run(p, name="copydelay", workers=4, mutators=3, programs=4 if quick else 15,
                            ops=100, sems="0,0,0,0,2", seed_off=60 + i, extra=["--copydelay", "--nochurn"],
                            opts="immix_always_defrag=true,immix_defrag_every_block=true"
                            if "Immix" in p else ""))
    ctx.cov["in_situ_callers"] = hc.execute(ctx, wruns, ("C17:", "C01:"))

    # ---- binding demonstration (vacuity control of the trace specification) -----------------------
    if files and (not quick or os.environ.get("VERIF_DEMO")):
        rc.binding_demo(ctx, sd, TRACE_SPEC[0], TRACE_SPEC[1], files[0], "Fwd", _corrupt_ret, "demo_ret")
        rc.binding_demo(ctx, sd, TRACE_SPEC[0], TRACE_SPEC[1], files[-1], "Fwd", _corrupt_drop_cas, "demo_drop_cas")

    ctx.cov["rounds_per_run"] = rounds
    ctx.cov["driver_runs"] = len(files)
    ctx.cov["rows"] = tot["rows"]
    ctx.cov["distinct_nontrivial"] = tot["contended"]
    ctx.cov["rows_winner_declined"] = tot["declined"]
    ctx.cov["rows_already_forwarded"] = tot["prefwd"]
    ctx.cov["copies_made"] = tot["copies"]
    ctx.cov["exhaustive"] = False
    ctx.cov["rule"] = ("one row = one object traced concurrently by 2..4 real threads (one round has 1 or 2 "
                       "adjacent objects); distinct_nontrivial = rows in which some thread observed "
                       "BEING_FORWARDED or lost a compare-exchange, i.e. tracers really overlapped; "
                       "layouts %s x callers copyspace/immix x builds %s"
                       % (sorted(LAYOUTS.values()), [b for b, _ in builds]))
    ctx.assumptions.append("the interleaving search treats memory as sequentially consistent; every "
                           "operation of object_forwarding.rs is SeqCst")
    ctx.assumptions.append("`decide` (object pinned / copy space exhausted) is chosen by the harness per "
                           "round and thread; the specification allows either outcome")
