"""C28 — page resources hand out disjoint in-space pages with exact accounting.
Spec: spec/pageresource/PageResource.tla (reserve / grant / fail / release / reset of free-list, block
and monotone page resources, two interleaved acquirers; TLC checks disjointness, containment and the
counter equations and rejects six broken variants).
Binding (in situ): every gcdrive run logs, through cfg(mmtk_verif) hooks at Space::acquire and at the
real release points (FreeListPageResource::release_pages, BlockPageResource::release_block,
MonotonePageResource::reset / reset_cursor, RegionPageResource::reset_cursor, chunk regions of
discontiguous spaces) every grant and release, and the raw reserved/committed counters of every page
resource at the end of each collection; Trace_PageResource.tla validates the whole history."""
import os

import vf
from props import space_common as sc

META = {
    "level": "model_checking",
    "text": "PageResource.tla is model-checked exhaustively (3 spaces - free-list, block, monotone - "
            "of 4..5 pages, requests of 1..3 pages, two interleaved acquirers, release / reset / "
            "reset_cursor) for disjointness of live grants, containment in the space and the counter "
            "equations committed = pages granted, reserved = committed + requests in flight, never "
            "negative; six broken variants (double grant, grant past the extent, release not "
            "subtracting / subtracting twice, commit without reserve, dropped clear_request) are "
            "rejected. The real page resources are observed in situ: all eleven plans run real "
            "collections under the ShadowVM binding (default 64-bit layout: contiguous spaces on "
            "Map64; compressed-pointer layout: discontiguous spaces on Map32), every grant / release "
            "and the raw counters at every collection end are logged by hooks, and TLC validates each "
            "history against the specification (page alignment, disjointness across all spaces, "
            "containment in the owning space / its chunks, counters = pages currently granted).",
    "note": "Trusted: TLC, the add-only hooks (they log arguments and results of the real calls), the "
            "event order (a grant is logged after the page resource returned, a release before the "
            "pages become available again). Counters are compared only at quiescent points (end of a "
            "collection, mutators stopped). Histories are those the plans produce (stand-alone "
            "page-resource histories are not driven); weak-memory reorderings of the Relaxed counters "
            "are outside TLA+'s interleaving semantics.",
    "technique": "TLA+ spec (PageResource.tla) model-checked with TLC incl. mutants; page-resource "
                 "histories of real collections under all plans validated with TLC "
                 "(Trace_PageResource.tla)",
}
SPEC_DIR = "pageresource"
TRACE_SPEC = ("Trace_PageResource.tla", "Trace_PageResource.cfg")
# allocation churn: collections triggered by allocation (reserve / poll / clear_request / block)
CHURN_PLANS = [p for p in sc.PLANS if p != "NoGC"]
MUTANTS = ["double_grant", "beyond_extent", "release_not_subtracting", "release_subtracts_twice",
           "commit_without_reserve", "clear_request_dropped"]


def matrix(tier):
    runs = []
    if tier == "quick":
        for p in sc.PLANS:
            runs.append(sc.SRun(p, programs=5, ops=140, sems="0,0,0,0,1,2,2,6"))
        for p in ["SemiSpace", "Immix", "MarkSweep", "PageProtect", "GenCopy", "MarkCompact"]:
            runs.append(sc.SRun(p, layout="compressed", name="c", programs=4, ops=120,
                                sems="0,0,0,0,1,2,2,6", seed_off=1))
        for p in ["SemiSpace", "Immix", "MarkSweep", "GenImmix", "MarkCompact", "PageProtect"]:
            runs.append(sc.SRun(p, name="churn", heap=8, sems="0,2", programs=0, seed_off=2,
                                extra=["--mode", "churn", "--rounds", "1"]))
        # refused requests (non-blocking, over-heap, overcommitted) must give their reservation back
        for p in ["Immix", "SemiSpace", "MarkSweep"]:
            runs.append(sc.SRun(p, name="oom", heap=16, sems="0,2", programs=0, seed_off=4,
                                extra=["--mode", "oom", "--rounds", "2"]))
        # multi-chunk regions of the large object space carved into grants and partly released
        for p, lay in [("MarkSweep", "compressed"), ("SemiSpace", "compressed"), ("Immix", "")]:
            runs.append(sc.SRun(p, layout=lay, name="bigchunks", heap=96, sems="2", programs=0,
                                seed_off=3, extra=["--mode", "bigchunks", "--rounds", "2"]))
        return runs
    for p in CHURN_PLANS:
        runs.append(sc.SRun(p, name="oom", heap=16, sems="0,2", programs=0, seed_off=18,
                            extra=["--mode", "oom", "--rounds", "4"]))
        for lay in ["compressed", ""]:
            runs.append(sc.SRun(p, layout=lay, name="bigchunks", heap=96, sems="2", programs=0,
                                seed_off=16, extra=["--mode", "bigchunks", "--rounds", "6", "--steps", "40"]))
        runs.append(sc.SRun(p, layout="compressed", name="bigchunks-rel", heap=96, sems="2", programs=0,
                            release=True, seed_off=17,
                            extra=["--mode", "bigchunks", "--rounds", "6", "--steps", "40"]))
    for p in sc.PLANS:
        for i, w in enumerate([1, 4, 8]):
            runs.append(sc.SRun(p, name="w%d" % w, workers=w, mutators=1 + i, programs=20, ops=200,
                                sems="0,0,0,0,1,2,2,6", seed_off=i))
        runs.append(sc.SRun(p, name="small", heap=8, programs=20, ops=220, seed_off=4,
                            sems="0,0,0,2,2,6"))
        runs.append(sc.SRun(p, name="rel", programs=20, ops=200, release=True, seed_off=5))
        if p != "NoGC":            # (a stress-triggered collection under NoGC is a stated precondition violation)
            runs.append(sc.SRun(p, name="stress", opts="stress_factor=65536", programs=12, seed_off=6,
                                heap=16))
        runs.append(sc.SRun(p, layout="compressed", name="c", programs=15, ops=200,
                            sems="0,0,0,0,1,2,2,6", seed_off=7))
        runs.append(sc.SRun(p, feats=["immortal_as_nonmoving"], name="nmimm", programs=10, seed_off=8))
        runs.append(sc.SRun(p, feats=["vo_bit"], name="vo", programs=10, seed_off=9, heap=10))
        if p != "NoGC":
            runs.append(sc.SRun(p, name="cycles", heap=16, sems="0,0,0,2,6", seed_off=10,
                                extra=["--mode", "cycles", "--cycles", "60"]))
    for p in CHURN_PLANS:
        runs.append(sc.SRun(p, name="churn", heap=8, sems="0,2", programs=0, seed_off=13,
                            extra=["--mode", "churn", "--rounds", "4"]))
        runs.append(sc.SRun(p, name="churn16", heap=16, workers=6, sems="0,2", programs=0, seed_off=14,
                            extra=["--mode", "churn", "--rounds", "3", "--slots", "20"]))
        runs.append(sc.SRun(p, layout="compressed", name="churn", heap=8, sems="0,2", programs=0,
                            seed_off=15, extra=["--mode", "churn", "--rounds", "3"]))
    for p in ["Immix", "GenImmix", "StickyImmix", "ConcurrentImmix"]:
        runs.append(sc.SRun(p, feats=["immix_smaller_block"], name="sb", programs=15, seed_off=11))
        runs.append(sc.SRun(p, name="defrag", programs=15, seed_off=12, heap=10,
                            opts="immix_always_defrag=true,immix_defrag_every_block=true"))
    return runs


def keyfn_of(run):
    def keyfn(row):
        tag = row.get("_tag") or "untagged"
        if tag == "crash":
            return sc.crash_key(row, run.plan)
        if not tag.startswith("C28:"):
            return None
        if tag.count(":") >= 2:          # counter guards carry the space name: the key of a finding
            return tag
        return "%s:%s:%s%s" % (tag, run.plan, "+".join(run.feats) or "default",
                               ":" + run.layout if run.layout else "")
    return keyfn


def run(ctx):
    sd = os.path.join(vf.SPEC, SPEC_DIR)
    ctx.tlc_mc("PageResource.tla", "MC_PageResource.cfg", spec_dir=sd, workers=4, timeout=900,
               require_actions=["Reserve", "Grant", "Fail", "Reset", "ResetCursor"])
    if ctx.tier != "quick":
        ctx.tlc_mc("PageResource.tla", "MC_PageResource_big.cfg", spec_dir=sd, workers=4, timeout=1500)
    sc.mc_parallel(ctx, sd, "PageResource.tla",
                   [("MC_PageResource_mutant_%s.cfg" % m, dict(expect_violation=True, workers=1, timeout=300))
                    for m in MUTANTS], par=3)
    runs = matrix(ctx.tier)
    exes = sc.build_all(ctx, runs)
    items = sc.run_all(ctx, runs, exes, sc.PR_EVENTS)
    st = sc.validate_all(ctx, items, sd, TRACE_SPEC[0], TRACE_SPEC[1], keyfn_of,
                         "page-resource history rejected by PageResource", "PR_STATS")
    ctx.sample_lines(items[0][1], 6, 300)
    if ctx.tier != "quick":
        demo_src = next(out for r, out, _ in items if r.plan == "Immix" and not r.layout)

        def dup_grant(lines):      # the same pages granted twice
            i = next(k for k, x in enumerate(lines) if x.startswith('{"ev":"PRAcquire"'))
            return lines[:i + 1] + [lines[i]] + lines[i + 1:]

        def drop_release(lines):   # a release that was never logged: counters no longer match
            i = next(k for k, x in enumerate(lines) if x.startswith('{"ev":"PRRelease"'))
            return lines[:i] + lines[i + 1:]
        sc.binding_demo(ctx, sd, TRACE_SPEC[0], TRACE_SPEC[1], demo_src, "double_grant", dup_grant,
                        "C28:disjoint")
        sc.binding_demo(ctx, sd, TRACE_SPEC[0], TRACE_SPEC[1], demo_src, "lost_release", drop_release,
                        "C28:")
    ctx.cov["driver"] = st
    ctx.cov["exhaustive"] = False
    ctx.cov["rule"] = ("one trace = the page-resource events of one gcdrive process (plan x feature "
                       "build x layout x configuration): grants = Space::acquire successes, releases "
                       "= release_pages/release_block calls, rangeReleases = monotone/region resets, "
                       "counterChecks = PRCounters events (one per collection end, all spaces)")
    ctx.cov["plans"] = sc.PLANS
    ctx.cov["layouts"] = sorted({r.layout or "default64" for r in runs})
    ctx.assumptions.append("counter equalities are required only at collection ends (no acquire or "
                           "release in flight: GC work finished, the mutator thread stopped)")
