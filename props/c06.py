"""C06 — soft / weak / phantom references and finalizers follow their semantics.

Spec: spec/refproc/RefProc.tla — objects, strong graph, reference objects per strength with a
referent slot, the three reference tables, the pending (enqueued) lists, finalizer candidates and
the ready list, a collection as the sequence of phases in the order the scheduler opens the buckets
(soft retain+scan, weak scan, finalization + closure, phantom scan, forwarding, enqueue/release),
emergency flag, nursery collections, moving collections. TLC checks the declarative postcondition of
a collection (keep / clear+enqueue exactly once / drop dead references / ready exactly the
unreachable registrations, retained with their closure until popped / once per registration) for
all programs over a few objects; ten broken variants must be rejected, and so must the variant that
re-examines the ready list as the pinned code did (the recorded and repaired finding).
Binding: `gcdrive --mode refs` runs seeded programs on the real MMTk under every collecting plan
(ShadowVM ReferenceGlue); Trace_RefProc.tla (EXTENDS HeapTrace) evaluates the same postcondition on
every recorded collection from the model state before it, the clear_referent /
enqueue_references callbacks, the walker's view of every live reference object's referent slot and
the contents of MMTk's tables and finalizer lists at the end of the pause."""
import concurrent.futures as cf
import json
import os
import re

import vf
from props import heapcommon as hc

SPEC_DIR = "refproc"
TRACE_SPEC = ("Trace_RefProc.tla", "Trace_RefProc.cfg")
SD = os.path.join(vf.SPEC, SPEC_DIR)
META = {
    "level": "model_checking",
    "text": "Design level: RefProc.tla (reference tables per strength, pending lists, finalizer "
            "candidates / ready list, a collection as the phase sequence of the scheduler: soft "
            "retain+scan, weak scan, finalization with closure, phantom scan, forwarding, enqueue / "
            "release; emergency, nursery and moving collections) is model-checked by TLC for all "
            "mutator programs over 2 objects x 2 collections (3 objects in the thorough tier) against "
            "the declarative postcondition of C06; ten broken variants (enqueue twice, soft referent "
            "not retained, finalizable not kept alive, ready list lost, phantom before finalization, "
            "referent / finalizable not forwarded, cleared but not enqueued, dead reference enqueued, "
            "dead reference not cleared) and the ready-list re-examination of the pinned code must be "
            "rejected. Conformance: seeded programs (reference objects of the three strengths, "
            "finalizers registered once or twice, referents and reference objects kept / dropped / "
            "re-targeted, nursery / full / allocation-triggered / emergency collections in 6-10 MB "
            "heaps, pops at random times, get_all_finalizers / get_finalizers_for) run on the real "
            "MMTk under the ten collecting plans; TLC evaluates the postcondition on every recorded "
            "collection (Trace_RefProc.tla on top of HeapTrace.tla).",
    "note": "Trusted: TLC; the ShadowVM binding (ReferenceGlue callbacks, heap walker), the read-only "
            "hook refproc_snapshot (tables and finalizer lists at the end of a pause). is_live() is "
            "exact only for objects a collection could reclaim: 'must be cleared / must become ready' "
            "is required only when the object is certainly dead for that collection (full-heap "
            "collection, or certainly-young object in a nursery collection; nothing in the final-mark "
            "pause of ConcurrentImmix, never for never-collected spaces); 'must be kept' is required "
            "for everything strongly reachable (plus soft referents unless emergency, plus the closure "
            "of the ready list for phantoms). Phantom referents are never loaded by the programs; "
            "reference objects are registered right after their referent is stored. NonMoving / "
            "Immortal semantics stay clear of the recorded C01 defects (hc.EXCLUDED_SEMS).",
    "technique": "TLA+ spec (RefProc.tla) model-checked with TLC incl. 10 mutants; recorded "
                 "collections of the real MMTk under all collecting plans validated with TLC "
                 "(Trace_RefProc.tla EXTENDS HeapTrace.tla)",
}
PREFIXES = ("C06:", "C01:", "C02:")
PLANS = [p for p in hc.PLANS if p != "NoGC"]
GEN = ("GenCopy", "GenImmix", "StickyImmix")
MUTANTS = ["enqueue_twice", "soft_not_retained", "final_not_kept_alive", "ready_lost",
           "phantom_before_final", "referent_not_forwarded", "finalizable_not_forwarded",
           "clear_not_enqueued", "dead_ref_enqueued", "dead_ref_not_cleared"]
QUICK_MUTANTS = ["enqueue_twice", "soft_not_retained", "final_not_kept_alive",
                 "phantom_before_final"]

# events of this family that the process trace is projected on, besides HeapTrace's
hc.HEAP_EVENTS.update({"SetReferent", "GetReferent", "AddCandidate", "AddFinalizer", "PopFinalized",
                       "GetAllFinalizers", "GetFinalizersFor", "ClearReferent", "EnqueueRefs",
                       "RefCleanup", "RefCleanupEnd", "ConcurrentWindow"})


# Recorded defect (KNOWN_FINDINGS.json, C06): in a nursery collection of a generational plan the
# common non-moving space is neither traced nor swept, and is_live() of a reachable NonMoving object
# allocated since the last full-heap collection answers false, so reference processing and
# finalization treat it as dead. Ordinary runs of the generational plans do not use NonMoving
# semantics; a dedicated probe run exercises them.
NONMOVING_KEY = "generational-nursery+NonMoving:is_live"
# Recorded defect (KNOWN_FINDINGS.json, C06): ConcurrentImmix does not treat the finalizer lists as part
# of the snapshot; an object handed out by get_finalized_object / get_all_finalizers /
# get_finalizers_for while concurrent marking is in progress is reclaimed by the final-mark pause
# although the VM holds it. Ordinary runs do not call these functions inside the marking window
# (generator constraint in modes_refs.rs); the probe run (--concpop) does.
CONCPOP_KEY = "ConcurrentImmix:finalizer-handed-out-during-concurrent-marking"


def _run(plan, name, programs, ops=150, heap=8, feats=(), workers=3, mutators=2, opts="", seed_off=0,
         release=False, sems="0,0,0,0,2,6", known_key=None, extra=()):
    if plan in GEN and known_key is None:
        sems = ",".join(x for x in sems.split(",") if x != "6") or "0"
    return hc.Run(plan, known_key=known_key, feats=feats, name=name, heap=heap, workers=workers, mutators=mutators,
                  programs=programs, ops=ops, sems=sems, opts=opts,
                  extra=["--mode", "refs"] + list(extra),
                  seed_off=seed_off, release=release)


def matrix(tier):
    runs = []
    if tier == "quick":
        for i, p in enumerate(PLANS):
            runs.append(_run(p, "refs", 5, ops=150, seed_off=i))
        runs.append(_run("GenImmix", "nonmoving-probe", 3, sems="0,6,6", known_key=NONMOVING_KEY))
        runs.append(_run("ConcurrentImmix", "concpop-probe", 8, ops=200, heap=6, seed_off=50,
                         known_key=CONCPOP_KEY, extra=["--concpop"]))
        return runs
    for i, p in enumerate(PLANS):
        runs.append(_run(p, "refs", 25, ops=200, seed_off=i))
        runs.append(_run(p, "refs-w1", 15, ops=200, workers=1, mutators=1, heap=6, seed_off=20 + i))
        if p != "ConcurrentImmix":
            # the vo_bit walker calls MMTK::enumerate_objects inside the pause; that is outside the
            # API contract while a concurrent collection is in progress (LOS asserts)
            runs.append(_run(p, "refs-vo", 15, ops=200, feats=["vo_bit"], workers=4, heap=10,
                             seed_off=40 + i))
        runs.append(_run(p, "refs-rel", 30, ops=250, release=True, workers=4, mutators=3,
                         seed_off=60 + i))
        runs.append(_run(p, "refs-long", 5, ops=800, heap=12, seed_off=80 + i))
    for i, p in enumerate(["Immix", "GenImmix", "StickyImmix", "ConcurrentImmix"]):
        runs.append(_run(p, "refs-defrag", 15, ops=200, seed_off=100 + i,
                         opts="immix_always_defrag=true,immix_defrag_every_block=true"))
        runs.append(_run(p, "refs-sb", 12, ops=200, feats=["immix_smaller_block"], seed_off=110 + i))
    runs.append(_run("StickyImmix", "refs-sxnm", 15, ops=200, seed_off=120,
                     feats=["sticky_immix_non_moving_nursery"]))
    for i, p in enumerate(GEN):
        runs.append(_run(p, "refs-fullsys", 12, ops=200, seed_off=130 + i,
                         opts="full_heap_system_gc=true"))
        runs.append(_run(p, "nonmoving-probe", 4, sems="0,6,6", seed_off=140 + i,
                         known_key=NONMOVING_KEY))
    runs.append(_run("ConcurrentImmix", "concpop-probe", 40, ops=250, heap=6, seed_off=150,
                     known_key=CONCPOP_KEY, extra=["--concpop"]))
    return runs


def _ref_stats(ctx, runs):
    tot = {}
    for r in runs:
        path = os.path.join(ctx.work, "tlc_t_%s.log" % r.label)
        try:
            log = open(path).read()
        except OSError:
            continue
        m = re.search(r"REF_STATS \[(.*?)\]", log)
        if not m:
            continue
        for kv in m.group(1).split(","):
            k, v = kv.split("|->")
            tot[k.strip()] = tot.get(k.strip(), 0) + int(v.strip())
    return tot


def design_mc(ctx):
    thorough = ctx.tier != "quick"
    jobs = [("MC_RefProc.cfg", False, 4)]
    for m in (MUTANTS if thorough else QUICK_MUTANTS):
        jobs.append(("MC_RefProc_mutant_%s.cfg" % m, True, 2))
    # the pinned code's re-examination of the ready list (repaired by the fix: commit, see
    # KNOWN_FINDINGS.json): the design-level exhibit of that finding must be rejected too
    jobs.append(("MC_RefProc_finding_requeue_ready.cfg", True, 2))
    if thorough:
        jobs.append(("MC_RefProc_thorough.cfg", False, 4))
        jobs.append(("MC_RefProc_tworefs.cfg", False, 4))

    def one(j):
        cfg, mutant, w = j
        if mutant:
            return ctx.tlc_mc("RefProc.tla", cfg, spec_dir=SD, workers=w, expect_violation=True,
                              timeout=900)
        return ctx.tlc_mc("RefProc.tla", cfg, spec_dir=SD, workers=w, timeout=2400,
                          require_actions=["SetReferent", "GetReferent", "AddFinalizer", "Pop",
                                           "GetFor", "GCStart", "SoftPhase", "WeakPhase",
                                           "FinalPhase", "PhantomPhase", "ForwardPhase",
                                           "ReleasePhase", "GCFinish"])
    with cf.ThreadPoolExecutor(2 if thorough else 3) as ex:
        list(ex.map(one, jobs))


def binding_demo(ctx, trace):
    """Corrupt an accepted trace in ways a broken reference processor would and confirm that the
    trace specification rejects each of them (vacuity control of the binding)."""
    lines = open(trace).read().splitlines()
    rows = [json.loads(x) for x in lines]
    outdir = os.path.join(ctx.work, "demo")
    os.makedirs(outdir, exist_ok=True)
    cases = []
    quiet = False
    enq = clr = pop = gcend = None
    for i, r in enumerate(rows):
        if r["ev"] == "RefCleanup":
            quiet = True
        elif r["ev"] == "RefCleanupEnd":
            quiet = False
        if quiet:
            continue
        if r["ev"] == "EnqueueRefs" and r["refs"] and enq is None:
            enq = i
        if r["ev"] == "PopFinalized" and r["id"] != 0 and pop is None:
            pop = i
        if r["ev"] == "GCEnd" and r["rp"]["ready"] and gcend is None:
            gcend = i
    if enq is not None:
        x = list(lines)
        del x[enq]
        cases.append(("drop-enqueue", x))
        y = list(lines)
        y.insert(enq, lines[enq])
        cases.append(("enqueue-twice", y))
    if pop is not None:
        x = list(lines)
        x.insert(pop, lines[pop])
        cases.append(("pop-twice", x))
    if gcend is not None:
        r = json.loads(lines[gcend])
        r["rp"]["cand"] = sorted(r["rp"]["cand"] + r["rp"]["ready"])
        r["rp"]["ready"] = []
        r["rp"]["rnodes"] = []
        x = list(lines)
        x[gcend] = json.dumps(r, separators=(",", ":"))
        cases.append(("ready-back-to-candidates", x))
    res = {}
    for name, content in cases:
        p = os.path.join(outdir, name + ".ndjson")
        with open(p, "w") as f:
            f.write("\n".join(content) + "\n")
        rc, out, _ = ctx._tlc(SD, TRACE_SPEC[0], TRACE_SPEC[1], "demo_" + name, 1, 900,
                              jvm=vf.TRACE_JVM, env={"TRACE": p})
        rejected = "ROW_REJECTED" in out or "TRACE_REJECTED" in out
        res[name] = rejected
        if not rejected:
            raise vf.ToolError("binding demonstration: corrupted trace %s was accepted" % name)
    ctx.cov["binding_demo_rejected"] = res


def run(ctx):
    design_mc(ctx)
    runs = matrix(ctx.tier)
    st = hc.execute(ctx, runs, PREFIXES, spec=(TRACE_SPEC[0], TRACE_SPEC[1], SD),
                    par_run=6, par_tlc=6)
    st["refproc"] = _ref_stats(ctx, runs)
    ctx.cov.update({"driver": st})
    ctx.cov["plans"] = PLANS
    ctx.cov["rule"] = ("one trace = one gcdrive process (plan x feature build x configuration) running "
                       "seeded programs; refproc.gcs = judged collections, kept = live references "
                       "whose referent was kept, cleared = references handed to enqueue_references, "
                       "deadrefs = registered references that were unreachable at a collection, "
                       "readied = objects that became ready, readyAcross = ready objects that were "
                       "still unpopped at a later collection, popped / popnone = get_finalized_object "
                       "results")
    rp = st["refproc"]
    for k in ("kept", "cleared", "readied", "popped", "readyAcross", "emergency"):
        if rp.get(k, 0) == 0:
            raise vf.ToolError("vacuous run: no '%s' case was exercised (%s)" % (k, rp))
    if ctx.tier != "quick":
        t = os.path.join(ctx.work, "traces", runs[0].label + ".ndjson")
        binding_demo(ctx, t)
