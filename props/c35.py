"""C35 — mark-sweep size classes fit every request.
Spec: spec/sizeclass/SizeClass.tla: the property (bin in range, the bin's cell holds the request
padded for the worst-case alignment gap, bins monotone in size, table non-decreasing, cells of a
fresh block disjoint / of the class size / inside the block) plus a model of the 48-entry table, the
mimalloc bin function and init_block, on which TLC evaluates the property over the whole finite
domain (65 537 sizes x every alignment of six VM settings) and exhibits the region where the
literal property fails in the model.
Binding: `d_arith sizeclass` dumps the REAL table (hook verif_size_class_table) and calls the real
mi_bin_from_size for every byte size 0..=MAX_BIN_SIZE and mi_bin::<VM> for every legal
(size, alignment) of five VM alignment settings; `d_arith freshblock` runs a real MarkSweep MMTK
instance, allocates once per size class (fresh block -> init_block) and walks the block's cell free
list (hook verif_block_free_list); Trace_SizeClass judges every row on the real values only."""
import json
import os

import vf

META = {
    "level": "model_checking",
    "text": "The domain is finite and is covered completely: TLC evaluates fit/range/monotonicity "
            "on a model of the table and bin function for all 65 537 sizes x 6 VM alignment "
            "settings (and the cell layout of all 48 classes), rejects three broken variants and "
            "finds the counterexample to the literal property in the model; the real mi_bin is "
            "called on the entire domain (every byte size; every MIN_ALIGNMENT-multiple x every "
            "alignment for 5 VM settings, 8 in the thorough tier) and the real table is dumped, and TLC judges every real "
            "(size, alignment, bin, table[bin]) tuple. Fresh-block cell lists come from a real "
            "MarkSweep instance for all 48 classes. Exhaustive enumeration of a finite domain is "
            "the strongest level there is for this property.",
    "note": "Fresh-block lists are observed after the first allocation from the block (free list + "
            "the returned cell) under one VM setting (MIN 8 / MAX 16) and at most a few blocks per "
            "class; the number of cells is reported, not judged (C35 does not fix it). VM "
            "alignment settings beyond the five driven ones are covered by the model only. "
            "Trusted: TLC, hooks verif_size_class_table / verif_mi_bin_from_size / "
            "verif_block_free_list (read-only), the stub VM binding.",
    "technique": "TLA+ spec (SizeClass.tla) model-checked with TLC over the whole finite domain; "
                 "the real table/bin function/fresh blocks validated row by row with TLC "
                 "(Trace_SizeClass.tla)",
}
SPEC_DIR = "sizeclass"
TRACE_SPEC = ("Trace_SizeClass.tla", "Trace_SizeClass.cfg")


def _mk_keyfn(max_bin_size):
    def keyfn(row):
        ev, tag = row.get("ev", "?"), row.get("_tag") or "row"
        if ev in ("BV", "AL") and tag in ("range", "fits", "alloc"):
            la, lmin, lmax = row.get("la", 0), row.get("lmin", 0), row.get("lmax", 0)
            size = row.get("s0") if ev == "BV" else row.get("size")
            single = ev == "AL" or row.get("n") == 1
            pad = (1 << la) - (1 << lmin) if (la > lmin and lmax > lmin) else 0
            # input class of the finding: a single request within the largest class whose padded
            # size exceeds it
            if single and size is not None and size <= max_bin_size < size + pad:
                return "mi_bin:padded-size-exceeds-largest-class"
        if ev == "BV":
            return "sizeclass:BV:%s:lmin=%s:lmax=%s:la=%s" % (
                tag, row.get("lmin"), row.get("lmax"), row.get("la"))
        if ev == "BS":
            return "sizeclass:BS:%s" % tag
        if ev == "FB":
            return "sizeclass:FB:%s" % tag
        return "sizeclass:%s:%s" % (ev, tag)
    return keyfn


def _binding_demo(ctx, sd, good_trace):
    """Corrupt one logged cell of an accepted FB row and one bin of an accepted BS row; the trace
    specification has to reject both (the binding is not vacuous)."""
    lines = open(good_trace).read().splitlines()
    out, changed = [], set()
    for ln in lines:
        r = json.loads(ln)
        if r["ev"] == "FB" and "FB" not in changed and len(r["free"]) > 3:
            r["free"][1] += r["cell"] // 2 or 1          # overlaps its neighbour
            changed.add("FB")
        elif r["ev"] == "BS" and "BS" not in changed and r["s0"] > 1000:
            r["bins"][5] -= 1                              # a bin too small for its size
            changed.add("BS")
        out.append(json.dumps(r, separators=(",", ":")))
    p = os.path.join(ctx.work, "demo_corrupt.ndjson")
    with open(p, "w") as f:
        f.write("\n".join(out) + "\n")
    rc, o, _ = ctx._tlc(sd, TRACE_SPEC[0], TRACE_SPEC[1], "demo_corrupt", 1, 900,
                        jvm=vf.TRACE_JVM, env={"TRACE": p})
    tags = set()
    for l in o.splitlines():
        if "ROW_REJECTED" in l and "tag=" in l:
            tags.add(l.split("tag=")[1].strip('" '))
    ctx.cov["binding_demo"] = {"corrupted": sorted(changed), "rejected_tags": sorted(tags)}
    if not ({"block"} <= tags and ({"fits"} & tags or {"monotone"} & tags)):
        raise vf.ToolError("binding demonstration failed: corrupted rows were not rejected (%s)" % tags)


def run(ctx):
    sd = os.path.join(vf.SPEC, SPEC_DIR)
    exe = ctx.build("d_arith")
    quick = ctx.tier == "quick"
    # ---- specification leg (whole finite domain)
    # (VERIF_ARITH_SKIP_MC=1 skips it: only for mutation experiments on the code, which the
    # specification leg does not depend on)
    if not os.environ.get("VERIF_ARITH_SKIP_MC"):
        ctx.tlc_mc("SizeClass.tla", "MC_SizeClass.cfg", spec_dir=sd, require_actions=["Step"],
                   timeout=1500)
        r = ctx.tlc_mc("SizeClass.tla", "MC_SizeClass_literal.cfg", spec_dir=sd, expect_violation=True)
        ctx.cov["model_counterexample_to_literal_property"] = bool(r["violated"])
        muts = ["MC_SizeClass_mutant_table.cfg", "MC_SizeClass_mutant_bin.cfg",
                "MC_SizeClass_mutant_block.cfg"]
        for m in muts:
            ctx.tlc_mc("SizeClass.tla", m, spec_dir=sd, expect_violation=True)
    # ---- conformance leg
    t1 = os.path.join(ctx.work, "sizeclass.ndjson")
    rc, o = ctx.run([exe, "sizeclass", "--out", t1] + ([] if quick else ["--morevms"]))
    if rc != 0:
        raise vf.ToolError("d_arith sizeclass failed: rc=%s\n%s" % (rc, o[-2000:]))
    t2 = os.path.join(ctx.work, "freshblock.ndjson")
    if os.path.exists(t2):
        os.remove(t2)
    rc, o = ctx.run([exe, "freshblock", "--out", t2, "--rounds", "1" if quick else "4"])
    if rc != 0 or not os.path.exists(t2):
        # the process died inside mmtk-core (not in a recorded call): a violation, not a tool error
        ctx.violation("sizeclass:freshblock:driver-crash",
                      "the MarkSweep fresh-block driver crashed: rc=%s %s" % (rc, o[-600:]))
        open(t2, "w").close()
    rows1, rows2 = vf.read_ndjson(t1), vf.read_ndjson(t2)
    tb = rows1[0]
    max_bin_size = tb["max_bin_size"]
    calls = sum(r.get("n", 1) for r in rows1 if r["ev"] in ("BS", "BV"))
    fresh = [r for r in rows2 if r["ev"] == "FB"]
    ctx.sample(json.dumps(tb)[:600])
    if fresh:
        s = dict(fresh[len(fresh) // 2])
        s["free"] = s["free"][:6] + ["..."]
        ctx.sample(json.dumps(s)[:400])
    both = os.path.join(ctx.work, "sizeclass_all.ndjson")
    with open(both, "w") as f:
        f.write(open(t1).read())
        f.write(open(t2).read())
    ctx.tlc_trace(TRACE_SPEC[0], TRACE_SPEC[1], both, spec_dir=sd, key="sizeclass:row",
                  what="the real size-class table / mi_bin / fresh block violates the property",
                  ntraces=calls + len(fresh) + sum(1 for r in rows2 if r["ev"] == "AL"),
                  keyfn=_mk_keyfn(max_bin_size), replay_whole=True, timeout=2400)
    if not quick:
        _binding_demo(ctx, sd, both)
    ctx.cov["rows"] = len(rows1) + len(rows2)
    ctx.cov["mi_bin_calls"] = calls
    ctx.cov["domain"] = {"max_bin": tb["max_bin"], "max_bin_size": max_bin_size,
                         "sizes": max_bin_size + 1,
                         "vm_settings_log2_min_max": sorted({(r["lmin"], r["lmax"]) for r in rows1
                                                             if r["ev"] == "BV"})}
    ctx.cov["fresh_blocks"] = len(fresh)
    ctx.cov["fresh_block_cells"] = {str(r["cell"]): len(r["free"]) + 1 for r in fresh
                                    if r.get("round", 0) == 0}
    ctx.cov["exhaustive"] = True
    ctx.cov["rule"] = ("one validated trace = one real mi_bin call (all byte sizes 0..=MAX_BIN_SIZE; "
                       "all MIN_ALIGNMENT-multiples x alignments for 5 VM settings), one fresh "
                       "block of a real MarkSweep space, or one boundary allocation")
    ctx.assumptions.append("mi_bin::<VM> is only called with sizes that are multiples of "
                           "MIN_ALIGNMENT (debug assertion in get_maximum_aligned_size_inner); "
                           "other sizes are covered through mi_bin_from_size")
