"""Shared pieces of the side metadata checks C20, C21, C22 (spec/sidemeta, harness/d_sidemeta)."""
import concurrent.futures
import json
import os
import vf

SPEC_DIR = "sidemeta"


def spec_dir():
    return os.path.join(vf.SPEC, SPEC_DIR)


def split_at_map(path, parts, outdir, prefix):
    """Split a trace into ~`parts` files of similar line counts, cutting only in front of a
    `Map` row (the start of a history block)."""
    lines = open(path).read().splitlines()
    starts = [i for i, l in enumerate(lines) if l.startswith('{"ev":"Map"')]
    if not starts or starts[0] != 0:
        starts = [0] + starts
    target = max(1, len(lines) // max(1, parts))
    cuts = [0]
    for s in starts[1:]:
        if s - cuts[-1] >= target and len(cuts) < parts:
            cuts.append(s)
    cuts.append(len(lines))
    out = []
    os.makedirs(outdir, exist_ok=True)
    for i in range(len(cuts) - 1):
        p = os.path.join(outdir, "%s_%d.ndjson" % (prefix, i))
        with open(p, "w") as f:
            f.write("\n".join(lines[cuts[i]:cuts[i + 1]]) + "\n")
        out.append(p)
    return out


def count_rows(path, evs):
    n = {e: 0 for e in evs}
    total = 0
    with open(path) as f:
        for l in f:
            total += 1
            for e in evs:
                if l.startswith('{"ev":"%s"' % e):
                    n[e] += 1
                    break
    return total, n


def validate_parts(ctx, module, cfg, parts, what, keyfn, judged, jobs=4, timeout=1500):
    """Validate trace parts with up to `jobs` single-worker TLC processes at a time.
    `judged` = the row kinds that count as validated traces."""
    def one(p):
        _, n = count_rows(p, judged)
        return ctx.tlc_trace(module, cfg, p, spec_dir=spec_dir(), key="sidemeta:row", what=what,
                             ntraces=sum(n.values()), keyfn=keyfn, timeout=timeout)
    with concurrent.futures.ThreadPoolExecutor(max_workers=jobs) as ex:
        return list(ex.map(one, parts))


def build(ctx, release=False):
    """The driver binary. VERIF_SIDEMETA_EXE (VERIF_SIDEMETA_EXE_REL for release) substitutes a
    pre-built binary: used to demonstrate detection with a mutated scratch copy of mmtk-core
    without editing /repo, which other checks build against at the same time."""
    override = os.environ.get("VERIF_SIDEMETA_EXE_REL" if release else "VERIF_SIDEMETA_EXE")
    if override:
        vf.log("using pre-built driver %s" % override)
        ctx.assumptions.append("driver binary substituted by environment: %s" % override)
        return override
    return ctx.build("d_sidemeta", release=release)


def run_driver(ctx, exe, prop, out, timeout=1800, extra=(), release=False):
    """Debug driver: sizes of the tier. Release driver (thorough tier only): quick sizes on all
    spec shapes (the release build has no internal cross-checks; only the TLA+ oracle judges)."""
    args = ["--tier", "quick", "--allconfigs"] if release else ["--tier", ctx.tier]
    rc, o = ctx.run([exe, prop, "--out", out] + args + list(extra), timeout=timeout)
    if rc != 0:
        raise vf.ToolError("d_sidemeta %s failed: rc=%s\n%s" % (prop, rc, o[-2000:]))
    return o.strip().splitlines()[-1] if o.strip() else ""


def corrupt_demo(ctx, module, cfg, src, mutate, name):
    """Binding demonstration (thorough tier): corrupt one logged field of an accepted block and
    confirm that the trace specification rejects exactly that row. `mutate(rows)` edits parsed
    rows in place and returns the 1-based index of the corrupted row."""
    rows = [json.loads(l) for l in open(src).read().splitlines()[:400]]
    idx = mutate(rows)
    if idx is None:
        return None
    p = os.path.join(ctx.work, "corrupt_%s.ndjson" % name)
    with open(p, "w") as f:
        for r in rows:
            f.write(json.dumps(r, separators=(",", ":")) + "\n")
    sub = vf.Ctx(ctx.pid + "_demo", ctx.tier, ctx.seed)
    sub.known = []
    import io
    import contextlib
    buf = io.StringIO()
    with contextlib.redirect_stdout(buf):
        r = sub.tlc_trace(module, cfg, p, spec_dir=spec_dir(), key="demo", keyfn=lambda row: "demo")
    ok = (not r["accepted"]) and r.get("rejected_rows", 0) >= 1
    # the demo must not leave replay files or violations in the real context
    for v in sub.violations:
        try:
            os.remove(v["replay"])
        except OSError:
            pass
    for d in (os.path.join(vf.REPLAYS, sub.pid), ):
        try:
            os.rmdir(d)
        except OSError:
            pass
    ctx.cov.setdefault("binding_demo", []).append({"name": name, "corrupted_row": idx,
                                                   "rejected": ok})
    if not ok:
        raise vf.ToolError("binding demonstration %s: a corrupted row was accepted" % name)
    return ok
