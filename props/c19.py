"""C19 — the block pool never loses or duplicates a block.
Spec: spec/blockpool/BlockPool.tla — BlockPool / BlockQueue of util/heap/blockpageresource.rs at the
granularity of its atomic operations and critical sections (count, worker-local queues with
overflow, global list under its write lock, head queue under the upgradeable read lock, flush_all)
together with the abstract contract of the pool (held / guaranteed-poppable sets). TLC checks that
the detailed model implements the contract: NoLossNoDup, PopValid, LenOK, GuarPoppable,
FlushComplete; three mutants are rejected.
Binding: racedrive pool drives the REAL BlockPool — all sequential histories over {push w0, push w1,
pop, flush_all} up to a length (worker ordinal switched by a hook), random long histories crossing
the queue capacity of 256 and using add_global_array, and concurrent batches with real pushing and
popping threads — and TLC (Trace_BlockPool) validates every history against the contract."""
import os

from props import race_common as rc
import vf

META = {
    "level": "model_checking",
    "text": "TLC explores every interleaving of 2 pushing workers, 1-2 poppers and flush_all on the "
            "lock-level model (queue capacity 2, up to 5 blocks) and checks that the stored blocks are "
            "exactly the held ones (none lost, none twice), that every pop result is allowed by the "
            "contract at its linearisation point, that len() is exact at quiescence and never "
            "under-reports, and that after flush_all every held block is poppable. The real pool is "
            "then driven through every sequential history up to length 5 (7 thorough), random long "
            "histories that overflow the 256-entry local queues, and concurrent push/pop batches with "
            "real threads; TLC validates each history against the same contract operators. Concurrent "
            "schedules of the real pool are sampled.",
    "note": "Trusted: TLC; hooks verif_set_worker_ordinal (sets the thread-local GC worker ordinal) and "
            "BlockPool::verif_add_global_arrays (replicates the chunk-growth loop of "
            "alloc_pages_slow_sync around the private add_global_array). API precondition taken as a "
            "generator constraint: flush_all never runs concurrently with pushes.",
    "technique": "TLA+ spec at lock/atomic granularity with history variables for the abstract contract, "
                 "model-checked with TLC (+ mutants); recorded histories of the real pool validated by "
                 "TLC against the contract (Trace_BlockPool.tla)",
}
SPEC_DIR = "blockpool"
TRACE_SPEC = ("Trace_BlockPool.tla", "Trace_BlockPool.cfg")


def keyfn(row):
    tag = row.get("_tag") or "rejected"
    if row.get("ev") == "Crash":
        return "pool:crash:%s:%s" % (row.get("kind", "?"), (row.get("msg") or "")[:80])
    kind = row.get("kind", "batch") if row.get("ev") == "Hist" else "batch"
    return "pool:%s:%s" % (kind, tag)


def _corrupt_hist(r):
    """Binding demonstration: a pop reports a block that was never pushed."""
    for o in r["ops"]:
        if o[0] == "pop" and o[2] >= 1:
            o[2] = 999999
            return r
    return None


def _corrupt_len(r):
    """Binding demonstration: len() off by one."""
    for o in r["ops"]:
        if o[0] == "len":
            o[2] += 1
            return r
    return None


def run(ctx):
    sd = os.path.join(vf.SPEC, SPEC_DIR)
    quick = ctx.tier == "quick"
    builds = [("debug", ctx.build("racedrive"))]
    if not quick:
        builds.append(("release", ctx.build("racedrive", release=True)))

    acts = ["PushCount", "PushLocal", "PushOverflow", "PushGlobal", "PopCheckLen", "PopLockHead", "PopHead",
            "PopLockGlobal", "PopRetry", "PopInstall", "PopDec", "PopUnlock", "PopReturn", "FlushStart",
            "FlushTake", "FlushPut", "FlushReturn"]
    cfgs = ["MC_BlockPool_small.cfg"] if quick else ["MC_BlockPool.cfg", "MC_BlockPool_2pop.cfg", "MC_BlockPool_3w.cfg", "MC_BlockPool_deep.cfg"]
    for c in cfgs:
        ctx.tlc_mc("BlockPool.tla", c, spec_dir=sd, require_actions=acts, workers=4, env=rc.JVM_ENV, timeout=3000)
    for m in ("overflow_drops_old", "slow_path_no_dec", "flush_skips_last"):
        ctx.tlc_mc("BlockPool.tla", "MC_BlockPool_mutant_%s.cfg" % m, spec_dir=sd, expect_violation=True,
                   workers=2, env=rc.JVM_ENV)

    maxlen, nrandom, nbatch = (5, 30, 40) if quick else (7, 1500, 2500)
    jobs, files, rows = [], [], 0
    for bname, bexe in builds:
        out = os.path.join(ctx.work, "pool_%s.ndjson" % bname)
        if not rc.drive(ctx, bexe, ["pool", "--maxlen", str(maxlen), "--random", str(nrandom),
                                    "--batches", str(nbatch)], out, "pool:%s" % bname,
                        timeout=240 if quick else 1500):
            continue
        files.append(out)
        rows += sum(1 for _ in open(out))
        parts = rc.split_rows(out, 3 if quick else 8, ctx.work, "pool_%s_p" % bname, interleave=True)
        for p in parts:
            jobs.append(dict(module=TRACE_SPEC[0], cfg=TRACE_SPEC[1], trace=p, spec_dir=sd,
                             name="trace_" + os.path.splitext(os.path.basename(p))[0],
                             keyfn=keyfn, key="pool",
                             what="a recorded history of the real BlockPool violates the pool contract "
                                  "(block lost / duplicated / not pushed, wrong len, held block not "
                                  "poppable after flush_all)",
                             ntraces=sum(1 for _ in open(p)), timeout=3000))
    if files:
        ctx.sample_lines(files[0], 3, maxlen=500)
    rc.validate_parallel(ctx, jobs, jobs_at_once=3 if quick else 4)

    if files and (not quick or os.environ.get("VERIF_DEMO")):
        rc.binding_demo(ctx, sd, TRACE_SPEC[0], TRACE_SPEC[1], files[0], "Hist", _corrupt_hist, "demo_pop")
        rc.binding_demo(ctx, sd, TRACE_SPEC[0], TRACE_SPEC[1], files[0], "Hist", _corrupt_len, "demo_len")

    ctx.cov["rows"] = rows
    ctx.cov["exhaustive"] = True
    ctx.cov["rule"] = ("per build: every sequential history over {push by worker 0, push by worker 1, pop, "
                       "flush_all} of length <= %d (each followed by len, iterate_blocks, flush_all, pop "
                       "until None), %d random histories (1..4 workers, bursts crossing the capacity of 256, "
                       "add_global_array) and %d concurrent batches (1..3 pushing + 1..3 popping real "
                       "threads, then quiescent len / iterate / flush_all / drain); builds %s"
                       % (maxlen, nrandom, nbatch, [b for b, _ in builds]))
    ctx.assumptions.append("flush_all is not run concurrently with pushes (documented usage: "
                           "FlushPageResource runs it after the last sweeping packet)")
    ctx.assumptions.append("concurrent batches are validated at quiescent points only (multiset contract); "
                           "a pop returning None during the race is always allowed")
