"""C34 — Immix never hands out a line that holds a live object (line mark state wrap after > 127
GCs, hole search, block state byte round trip).

Spec: spec/immixlines/ImmixLines.tla — line mark bytes, line_mark_state / line_unavail_state,
block states, reusable pool, mutator and GC copy allocators (hole search), full-heap / nursery /
promoting / concurrent collections; TLC proves for small constants (MAX = 3 and 5, so the wrap is
reached) that no allocator ever receives a line of a reachable object and that the per-block
observation predicates hold after every pause; six seeded faults are rejected.
Binding: `gcdrive --mode immixlines` runs long histories (>= 300 collections, > 127 of them
full-heap) of the real plans Immix / GenImmix / StickyImmix / ConcurrentImmix on a small heap with
long-lived and churning objects; inside resume_mutators (and optionally in the middle of each
collection) the accessor hook mmtk::verif::immix_lines reports, for every block holding a
reachable object, the line mark states, block state byte, line mark bytes, pool membership and the
answers of the real get_next_available_lines from every line. Trace_ImmixLines.tla computes the
live lines from the reported object offsets/sizes and checks every report as a step of the spec."""
import concurrent.futures as cf
import json
import os
import re

import vf
from props import heapcommon as hc

META = {
    "level": "model_checking",
    "text": "TLC explores the ImmixLines state machine exhaustively for 2 symmetric blocks x 3 lines "
            "(4 in the thorough tier), MAX in {3,5} (the line mark state wraps every 3rd/5th full "
            "collection, so histories of arbitrary length are covered by the finite state graph) for "
            "the stop-the-world plans (full-heap, sticky nursery, defrag/nursery copying, skipped "
            "collections), the GenImmix mature space (promotion) and ConcurrentImmix (InitialMark, "
            "concurrent marking with allocation, FinalMark): no allocator receives a line of a "
            "reachable object, live lines are marked and holes are dead after every pause, sweeping "
            "leaves the documented block states; hole search is checked against its definition for "
            "all mark vectors up to length 5; block-state/byte round trips for all 256 bytes. The real "
            "code is then driven through >= 300 collections per plan (thousands in the thorough tier, "
            "feature builds immix_smaller_block, immix_non_moving, sticky_immix_non_moving_nursery, "
            "defrag/stress options, release builds) and TLC validates every per-collection report "
            "(state step, every block: hole-search answers from every line, live lines from the "
            "reported objects, sweep post-state, stale-mark clearing, frame condition) against the "
            "specification; the real From<u8>/From<BlockState> impls are driven over all bytes/states.",
    "note": "Trusted: TLC, the read-only accessor hook (immixspace.rs verif_lines), the ShadowVM heap "
            "walker (reachable objects, sizes from object headers), the harness JSON writer. The "
            "model abstracts objects to line ranges; the wrap for MAX = 127 itself is exercised only "
            "by the real runs (no inductive proof for MAX = 127 is attempted). NonMoving objects are "
            "not used under ConcurrentImmix (recorded defect of the snapshot, C01).",
    "technique": "TLA+ spec (ImmixLines.tla) model-checked with TLC incl. seeded-fault configs; "
                 "per-collection reports of the real Immix spaces validated with TLC "
                 "(Trace_ImmixLines.tla)",
}
SPEC_DIR = "immixlines"
TRACE_SPEC = ("Trace_ImmixLines.tla", "Trace_ImmixLines.cfg")
SD = os.path.join(vf.SPEC, SPEC_DIR)
IMMIX_PLANS = ["Immix", "GenImmix", "StickyImmix", "ConcurrentImmix"]


def _run(plan, name, gcs, feats=(), heap=6, opts="", seed_off=0, release=False, midgc=False,
         tracked=16, workers=3, sems="0,6"):
    extra = ["--mode", "immixlines", "--gcs", str(gcs), "--tracked", str(tracked)]
    if midgc:
        extra.append("--midgc")
    # ordinary runs stay clear of the recorded NonMoving defects (hc.EXCLUDED_SEMS)
    return hc.Run(plan, feats=feats, name=name, heap=heap, workers=workers, mutators=2, programs=0,
                  ops=0, sems=sems, opts=opts, extra=extra, seed_off=seed_off, release=release)


def matrix(tier):
    runs = []
    if tier == "quick":
        runs.append(_run("Immix", "mid", 300, midgc=True, tracked=10))
        runs.append(_run("GenImmix", "base", 300, seed_off=1))
        runs.append(_run("StickyImmix", "base", 300, seed_off=2))
        runs.append(_run("ConcurrentImmix", "base", 300, seed_off=3))
        return runs
    for i, p in enumerate(IMMIX_PLANS):
        runs.append(_run(p, "long", 800, tracked=12, seed_off=i))
        runs.append(_run(p, "mid", 300, midgc=True, tracked=12, seed_off=10 + i))
        runs.append(_run(p, "defrag", 300, heap=5, seed_off=20 + i,
                         opts="immix_always_defrag=true,immix_defrag_every_block=true"))
        runs.append(_run(p, "headroom", 250, heap=5, seed_off=30 + i, midgc=True, tracked=10,
                         opts="immix_always_defrag=true,immix_defrag_headroom_percent=30"))
        runs.append(_run(p, "stress", 250, heap=8, seed_off=40 + i, opts="stress_factor=262144"))
        runs.append(_run(p, "sb", 300, feats=["immix_smaller_block"], seed_off=50 + i, midgc=True,
                         tracked=20))
        runs.append(_run(p, "ixnm", 250, feats=["immix_non_moving"], seed_off=60 + i))
        runs.append(_run(p, "rel", 400, release=True, seed_off=70 + i, workers=4))
        runs.append(_run(p, "w1", 200, workers=1, seed_off=80 + i))
    runs.append(_run("StickyImmix", "sxnm", 300, feats=["sticky_immix_non_moving_nursery"],
                     seed_off=90, midgc=True, tracked=12))
    # the common non-moving space (an ImmixSpace) under plans whose own space is not Immix
    for i, p in enumerate(["SemiSpace", "MarkSweep", "GenCopy"]):
        runs.append(_run(p, "nonmoving", 300, heap=10, seed_off=95 + i))
    return runs


def _keyfn(run):
    def keyfn(row):
        tag = row.get("_tag") or "untagged"
        cfgname = "%s:%s" % (run.plan, "+".join(run.feats) or "default")
        if tag == "crash":
            return hc._crash_key(row, run)
        return "C34:%s:%s" % (tag, cfgname)
    return keyfn


def _mc(ctx):
    quick = ctx.tier == "quick"
    main = [("MC_ImmixLines.cfg", ["MajorPrepare", "NurseryBegin", "SkipGC", "TraceMarkAny", "TraceCopyAny",
                                   "Release", "NextHole", "AllocObj", "PopReusable", "AcquireClean",
                                   "DropAny"]),
            ("MC_ImmixLines_conc.cfg", ["InitialMark", "TraceMarkAny", "Release", "NextHole", "AllocObj",
                                        "MajorPrepare"]),
            ]
    if not quick:
        main += [("MC_ImmixLines_gen.cfg", ["PromoteBegin", "Promote", "PromoteEnd", "MajorPrepare",
                                            "TraceCopyAny", "Release"]),
                 ("MC_ImmixLines_holes.cfg", []),
                 ("MC_ImmixLines_max5.cfg", ["Release"]), ("MC_ImmixLines_conc_max5.cfg", ["Release"]),
                 ("MC_ImmixLines_big.cfg", ["Release"])]
    mutants = sorted(f for f in os.listdir(SD) if f.startswith("MC_ImmixLines_mutant") and f.endswith(".cfg"))
    if quick:
        mutants = [m for m in mutants if m in ("MC_ImmixLines_mutant_holeor.cfg",
                                               "MC_ImmixLines_mutant_unavail_safety.cfg",
                                               "MC_ImmixLines_mutant_endline.cfg")]
    # two exhaustive runs at a time with two workers each; the mutants stop at a shallow counterexample
    with cf.ThreadPoolExecutor(2) as ex:
        futs = [ex.submit(ctx.tlc_mc, "MC_ImmixLines.tla", c, spec_dir=SD, require_actions=req, workers=2,
                          timeout=3000, count=False) for c, req in main]
        for f in futs:
            res = f.result()
            ctx.cov["states"] += res["states"]
            ctx.cov["transitions"] += res["transitions"]
    with cf.ThreadPoolExecutor(3) as ex:
        futs = [ex.submit(ctx.tlc_mc, "MC_ImmixLines.tla", m, spec_dir=SD, expect_violation=True, workers=1,
                          timeout=900) for m in mutants]
        for f in futs:
            f.result()
    ctx.cov["mutant_cfgs_rejected"] = len(mutants)


def _stats_of(log):
    m = re.search(r"IX_STATS \[(.*?)\]", log)
    st = {}
    if m:
        for kv in m.group(1).split(","):
            k, v = kv.split("|->")
            st[k.strip()] = int(v.strip())
    return st


def _binding_demo(ctx, trace):
    """Corrupt one logged field of an accepted trace and confirm that the trace spec rejects it."""
    lines = open(trace).read().splitlines()
    head, gcs = [], 0
    for ln in lines:
        head.append(ln)
        if ln.startswith('{"ev":"IxGC"'):
            gcs += 1
            if gcs >= 12:
                break
    results = {}
    for name in ("mark-of-live-line-cleared", "unavail-not-updated", "hole-answer-shifted"):
        out = list(head)
        done = False
        for i in range(len(out) - 1, -1, -1):
            if not out[i].startswith('{"ev":"IxGC"'):
                continue
            r = json.loads(out[i])
            if r.get("at") != "end" or not r["blocks"]:
                continue
            b = r["blocks"][0]
            if name == "mark-of-live-line-cleared":
                b["m"][b["objs"][0][0] // 256] = 0
            elif name == "unavail-not-updated":
                for s in r["spaces"]:
                    s["un"] = s["un"] % 127 + 1
            else:
                j = next((x for x in range(len(b["hs"])) if b["hs"][x] >= 0), None)
                if j is None:
                    continue
                b["hs"][j] += 1
            out[i] = json.dumps(r, separators=(",", ":"))
            done = True
            break
        if not done:
            continue
        p = os.path.join(ctx.work, "demo_%s.ndjson" % name)
        with open(p, "w") as f:
            f.write("\n".join(out) + "\n")
        rc, o, _ = ctx._tlc(SD, TRACE_SPEC[0], TRACE_SPEC[1], "demo_" + name, 1, 600, jvm=vf.TRACE_JVM,
                            env={"TRACE": p})
        results[name] = sorted(set(re.findall(r"ROW_REJECTED l=\d+ tag=([^\s\"]+)", o)))
        if not results[name]:
            raise vf.ToolError("binding demonstration: corrupted trace (%s) was accepted" % name)
    ctx.cov["binding_demo_rejections"] = results


def run(ctx):
    runs = matrix(ctx.tier)
    exes = {}
    for fs, rel in sorted({(r.feats, r.release) for r in runs}):
        exes[(fs, rel)] = ctx.build("gcdrive", features=list(fs), release=rel)
    _mc(ctx)
    outdir = os.path.join(ctx.work, "traces")
    os.makedirs(outdir, exist_ok=True)

    def do_run(r):
        out = os.path.join(outdir, r.label + ".ndjson")
        if os.path.exists(out):
            os.remove(out)
        rc, o = ctx.run(r.argv(exes[(r.feats, r.release)], out), timeout=900,
                        env={"VERIF_SEED": str(ctx.seed * 100 + r.seed_off)})
        if not os.path.exists(out):
            raise vf.ToolError("gcdrive produced no trace for %s: rc=%s %s" % (r.label, rc, o[-1500:]))
        lines = open(out, errors="replace").read().splitlines()
        if lines and not lines[-1].endswith("}"):
            lines = lines[:-1]
        has_crash = any(ln.startswith('{"ev":"Crash"') for ln in lines[-5:])
        if rc != 0 and not has_crash:
            what = "hang (no progress within the time limit)" if rc == -9 else "process died rc=%s" % rc
            tail = re.sub(r"[^\x20-\x7e]", " ", o[-300:])
            lines.append(json.dumps({"ev": "Crash", "msg": what + " " + tail, "loc": "process", "th": -1}))
        with open(out, "w") as f:
            f.write("\n".join(lines) + "\n")
        return r, out

    with cf.ThreadPoolExecutor(4) as ex:
        results = list(ex.map(do_run, runs))

    agg = {}

    def do_val(item):
        r, out = item
        res = ctx.tlc_trace(TRACE_SPEC[0], TRACE_SPEC[1], out, spec_dir=SD, name="t_" + r.label,
                            keyfn=_keyfn(r), replay_whole=True, timeout=3000, xmx="6g",
                            what="per-collection Immix line report of %s rejected by Trace_ImmixLines" % r.label)
        log = open(os.path.join(ctx.work, "tlc_t_%s.log" % r.label)).read()
        return r, res, _stats_of(log)

    with cf.ThreadPoolExecutor(4) as ex:
        for r, res, st in ex.map(do_val, results):
            if not st and res["accepted"]:
                raise vf.ToolError("no IX_STATS for %s" % r.label)
            for k2, v in st.items():
                agg[k2] = agg.get(k2, 0) + v
            if st.get("reports", 0) < 50 and res["accepted"]:
                raise vf.ToolError("run %s produced only %d reports" % (r.label, st.get("reports", 0)))
    _binding_demo(ctx, results[0][1])
    ctx.sample_lines(results[0][1], 1, 300)
    for ln in open(results[0][1]):
        if ln.startswith('{"ev":"IxGC"'):
            ctx.sample(ln.strip()[:900])
            break
    ctx.cov["driver"] = agg
    # one "trace" = one per-collection report validated as a step of the specification
    ctx.cov["traces_validated_against_impl"] = agg.get("reports", 0) - sum(
        t.get("rejected_rows", 0) for t in ctx.cov["trace_runs"])
    ctx.cov["runs"] = len(runs)
    ctx.cov["exhaustive"] = False
    ctx.cov["rule"] = ("one validated trace = one report taken inside resume_mutators (or mid-collection) "
                       "covering every Immix block that holds a reachable object; driver counters: reports "
                       "by pause kind (major/nursery/promote/skip/initial/final/mid), blocks and live "
                       "objects checked, wraps of the line mark state observed, reports with "
                       "line_mark_state != line_unavail_state (neq)")
    if agg.get("wraps", 0) < 1 and not ctx.violations and not ctx.known_hits:
        raise vf.ToolError("no wrap of the line mark state was observed (histories too short)")
    ctx.assumptions.append("the reachable set is what the ShadowVM walker finds from the root slots; object "
                           "extents come from the object headers the harness wrote")
    ctx.assumptions.append("pause kinds are derived in the trace spec from plan name, space name, "
                           "is_nursery_gc and concurrent_work_in_progress as reported at the pause")
