"""C26 — free lists allocate disjoint runs and coalesce back completely.
Spec: spec/freelist/FreeList.tla (runs <<start,size,owner>> partitioning the list, uncoalescable
marks, one free list per head, growth; history variable G for the "initial runs" reading of
DESIGN.md C26). TLC checks all histories on small lists (integer-array list with one and two heads,
growing raw-memory list, page-resource configuration with every initial boundary uncoalescable) and
rejects four broken variants.
Binding: harness/d_freelist drives the real IntArrayFreeList (parent + from_parent children) and
RawMemoryFreeList through the FreeList trait: `explore` = breadth-first over the distinct table
states reachable by short histories on lists of <= 6 (thorough 8) units, one self-contained row per
(state, call) edge; `random` = long random histories on lists up to 512 (thorough 4096) units,
ending with everything freed. After each call the driver logs the call, its result and the table as
seen through the trait's getters (size/is_free/is_coalescable/get_left/list order per head);
Trace_FreeList decides every row."""
import os
import vf
from props import freelist_common as fc

META = {
    "level": "model_checking",
    "text": "TLC explores every alloc/alloc_from_unit/free/set|clear_uncoalescable/grow history of "
            "the specification on lists of 4-5 units (6 and 8 in the thorough tier), with one and "
            "two heads, and proves: runs partition the list, outstanding allocations are pairwise "
            "disjoint and size() reports their length, alloc fails only when the head's list has "
            "no run of that length, free never merges across an uncoalescable boundary, coalescing "
            "is complete (two free runs meet only at an initial/growth/once-uncoalescable "
            "boundary) and freeing everything restores the initial runs (exactly, when the initial "
            "boundaries are uncoalescable). The real IntArrayFreeList (incl. child lists) and "
            "RawMemoryFreeList are then driven breadth-first over all distinct table states "
            "reachable within 3 (thorough 5-6) calls on every list of <= 6 (8) units x 5 grains x "
            "1-2 heads, and by long random histories on lists up to 512 (4096) units; TLC validates "
            "every recorded call and every observed table against the specification. Exhaustive "
            "small scope + random long histories is the right level for a sequential data "
            "structure whose behaviours are determined by (table, call).",
    "note": "Trusted: TLC, the re-export hook verif_freelist, the projection walk through the "
            "trait's own getters, /proc/self/maps. Which free run alloc picks is not specified "
            "(any fitting run of the head's list). Child lists are driven under the page "
            "resources' protocol (a call through one head never unlinks a run of another head's "
            "list); raw-memory lists here use block sizes dividing the table's page count (the "
            "rest is C27's domain). Lists above 4096 units and histories above 2000 calls are not "
            "explored.",
    "technique": "TLA+ spec (FreeList.tla) checked with TLC; recorded calls and observed tables of "
                 "the real free lists validated with TLC (Trace_FreeList.tla)",
}
SPEC_DIR = "freelist"
TRACE_SPEC = fc.TRACE_SPEC
ACTIONS = ["Alloc", "AllocFrom", "Free", "SetUnco", "ClearUnco"]
WHAT = "real free list deviates from FreeList.tla"


def model_check(ctx):
    quick = ctx.tier == "quick"
    # ---- design level -------------------------------------------------------------------------
    fc.mc(ctx, "MC_FreeList.cfg", require=ACTIONS)
    fc.mc(ctx, "MC_FreeList_heads2.cfg", require=ACTIONS)
    fc.mc(ctx, "MC_FreeList_rm.cfg", require=ACTIONS + ["Grow"])
    fc.mc(ctx, "MC_FreeList_mutant_dropremainder.cfg", mutant=True)
    fc.mc(ctx, "MC_FreeList_mutant_crossunco.cfg", mutant=True)
    if not quick:
        fc.mc(ctx, "MC_FreeList_mutant_nocoalesce.cfg", mutant=True)
        fc.mc(ctx, "MC_FreeList_mutant_firstonly.cfg", mutant=True)
        fc.mc(ctx, "MC_FreeList_pinned.cfg", require=["Alloc", "AllocFrom", "Free"])
        fc.mc(ctx, "MC_FreeList_big.cfg", require=ACTIONS, timeout=2400)
        fc.mc(ctx, "MC_FreeList_heads2_big.cfg", require=ACTIONS, timeout=2400)
        fc.mc(ctx, "MC_FreeList_rm_big.cfg", require=ACTIONS + ["Grow"], timeout=2400)
        fc.mc(ctx, "MC_FreeList_grain4.cfg", require=ACTIONS, timeout=3000)


def drive_and_validate(ctx):
    quick = ctx.tier == "quick"
    exe = ctx.build("d_freelist")
    # ---- the real code: exhaustive short histories ----------------------------------------------
    ex_files = []
    plans = [("a", 1, 6, 3)] if quick else [("a", 1, 4, 6), ("b", 5, 6, 5), ("c", 7, 8, 4)]
    for tag, lo, hi, depth in plans:
        out = os.path.join(ctx.work, "explore_%s.ndjson" % tag)
        rc, o = ctx.run([exe, "explore", "--out", out, "--depth", str(depth), "--minunits", str(lo),
                         "--maxunits", str(hi), "--nodecap", "6000", "--hang", "30"],
                        timeout=600 if quick else 2400)
        if rc == 3:
            ctx.sample("explore %s: a call of the code under test hung (Hang row recorded)" % tag)
        elif rc != 0:
            ctx.violation("driver:explore:exit-%s" % rc, "d_freelist explore died (a fault in the "
                          "code under test that is not a panic): %s" % o[-600:])
            continue
        ex_files.append(out)
        ctx.sample((o.strip().splitlines() or ["?"])[-1] + " (explore %s: units %d..%d depth %d)" % (tag, lo, hi, depth))
    # ---- the real code: random long histories ---------------------------------------------------
    rnd_files = []
    runs = [("dbg", exe, 40, 300, 512, 10)] if quick else [
        ("dbg", exe, 150, 1500, 4096, 25),
        ("rel", ctx.build("d_freelist", release=True), 150, 2000, 4096, 25)]
    for tag, binary, nh, nops, mu, every in runs:
        out = os.path.join(ctx.work, "random_%s.ndjson" % tag)
        rc, o = ctx.run([binary, "random", "--out", out, "--histories", str(nh), "--ops", str(nops),
                         "--maxunits", str(mu), "--every", str(every), "--hang", "30"],
                        timeout=300 if quick else 1800)
        if rc == 3:
            ctx.sample("random %s: a call of the code under test hung (Hang row recorded)" % tag)
        elif rc != 0:
            ctx.violation("driver:random:exit-%s" % rc, "d_freelist random died or hung (rc -9 = "
                          "time-out): %s" % o[-600:])
            continue
        rnd_files.append(out)
    # ---- validation -----------------------------------------------------------------------------
    parts = []
    for f in ex_files:
        n = sum(1 for _ in open(f))
        parts += fc.split_even(f, max(1, n // 25000) if not quick else 2, ctx.work,
                               "p_" + os.path.basename(f)[:-7])
    rows = lambda p: sum(1 for _ in open(p))  # noqa: E731
    fc.validate(ctx, parts, WHAT, False, rows, jobs=3)
    hparts = []
    for f in rnd_files:
        hparts += vf.split_ndjson(f, 2 if quick else 6, ctx.work, "h_" + os.path.basename(f)[:-7],
                                  boundary_ev="New")
    fc.validate(ctx, hparts, WHAT, True, fc.histories, jobs=3)
    st = fc.stats(ex_files + rnd_files)
    for f in ex_files[:1] + rnd_files[:1]:
        ctx.sample_lines(f, 2, maxlen=500)
    if not quick and hparts:
        ctx.cov["binding_demo"] = fc.binding_demo(ctx, hparts[0], "c26")
    ctx.cov["trace_content"] = st
    ctx.cov["exhaustive"] = True
    ctx.cov["distinct_nontrivial"] = st.get("Alloc_succeeded", 0) + st.get("calls_Free", 0)
    ctx.cov["rule"] = ("explore: every call (alloc of every size through every head, free of every "
                       "allocated run through every legal head with both return modes, "
                       "alloc_from_unit at every run start, size, set/clear_uncoalescable on two "
                       "candidate units, grow for the raw-memory lists) from every distinct table "
                       "state reachable within the stated depth, one row per edge; random: %d "
                       "histories ending with everything freed; units counted in "
                       "traces_validated_against_impl = self-contained rows + histories; "
                       "distinct_nontrivial = successful allocs + frees" % st.get("histories", 0))
    ctx.assumptions.append("child lists (from_parent) are driven under the page resources' "
                           "protocol: a call through head h never has to unlink a run linked on "
                           "another head's list (FreePre/AllocFromPre)")
    ctx.assumptions.append("the driver's legality filters read the observed table only to choose "
                           "inputs; every verdict is Trace_FreeList's")


def run(ctx):
    model_check(ctx)
    drive_and_validate(ctx)
