"""C38 — dynamic heap size stays within its bounds; a fixed heap size never changes (component
level). Spec: spec/membalancer/MemBalancer.tla — the trigger's abstract state with the
floating-point formula abstracted to an arbitrary `optimal`; TLC checks InBounds / Constant on all
event histories and rejects three broken variants. Binding: d_policy membalancer feeds the real
MemBalancerTrigger (real compute_new_heap_limit, real on_pending_allocation, real getters) and the
real FixedHeapSizeTrigger histories of statistics; Trace_MemBalancer judges the heap size reported
after every event."""
import json
import os
import re
import vf

META = {
    "level": "model_checking",
    "text": "TLC explores every history of construction, pending notifications, GC "
            "start/release/end and nursery-GC end over small page counts in MemBalancer.tla, the "
            "formula's result being an arbitrary natural number, and proves the current heap size "
            "stays in [min,max] (dynamic) resp. never changes (fixed); variants without the clamp, "
            "with a one-sided clamp and with a mutable fixed trigger are rejected. The real "
            "MemBalancerTrigger is fed a grid of one/two(/three)-GC histories over 11 (min,max) "
            "pairs (incl. min = max, 0, 2^52) with zero/tiny/large durations, zero/one/huge page "
            "counts and pending sizes, directed edge histories and seeded random long histories "
            "(non-generational, generational with nursery GCs, raw statistics) in three magnitude "
            "classes; TLC checks the heap size reported after every single event. A panic of the "
            "code is a Crash row and counts as a violation.",
    "note": "Only the clamp and FixedHeapSize constancy are judged; the value chosen inside the "
            "bounds is not (no reals in TLC). on_gc_start/release/end need a live MMTK only to "
            "read the clock and plan counters: the hook passes those numbers explicitly into the "
            "real MemBalancerStats and calls the real compute_new_heap_limit; the whole-system "
            "harness covers the callbacks themselves. FixedHeapSizeTrigger's GC callbacks are the "
            "trait's empty defaults and are not called here. Trusted: TLC, the hook "
            "gc_trigger.rs::verif_hooks.",
    "technique": "TLA+ spec (MemBalancer.tla) model-checked with TLC; recorded histories of the "
                 "real triggers validated event by event with TLC (Trace_MemBalancer.tla)",
}
SPEC_DIR = "membalancer"
TRACE_SPEC = ("Trace_MemBalancer.tla", "Trace_MemBalancer.cfg")
MUTANTS = ["no_clamp", "clamp_upper_only", "fixed_follows_optimal"]
ACTIONS = ["NewDyn", "NewFixed", "Pending", "GCStart", "GCRelease", "GCEnd", "NurseryGCEnd"]


def keyfn(row):
    ev = row.get("ev")
    if ev == "Crash":
        kind = "overflow" if "overflow" in row.get("msg", "") else "panic"
        return "membalancer:crash:%s:cls%s" % (kind, row.get("cls", "?"))
    if ev in ("NewDyn", "NewFixed"):
        return "membalancer:%s" % ev
    return "membalancer:%s:%s" % ("constant" if row.get("k") == "fixed" else "bounds", ev)


def summary(out):
    m = re.search(r"^SUMMARY (\{.*\})$", out, re.M)
    if not m:
        raise vf.ToolError("driver printed no SUMMARY line:\n" + out[-1500:])
    return json.loads(m.group(1))


def run(ctx):
    sd = os.path.join(vf.SPEC, SPEC_DIR)
    quick = ctx.tier == "quick"
    exes = [("debug", ctx.build("d_policy"))]
    if not quick:
        exes.append(("release", ctx.build("d_policy", release=True)))
    ctx.tlc_mc("MemBalancer.tla", "MC_MemBalancer.cfg" if quick else "MC_MemBalancer_thorough.cfg",
               spec_dir=sd, require_actions=ACTIONS, timeout=1500)
    for m in MUTANTS:
        ctx.tlc_mc("MemBalancer.tla", "MC_MemBalancer_mutant_%s.cfg" % m, spec_dir=sd,
                   expect_violation=True)
    if quick:
        args = ["--l2", 1, "--l3", 0, "--random", 300, "--cycles", 30]
    else:
        args = ["--l2", 1, "--l3", 1, "--random", 3000, "--cycles", 60]
    details = []
    rows = hist = 0
    first = None
    for prof, exe in exes:
        out = os.path.join(ctx.work, "mb_%s.ndjson" % prof)
        rc, o = ctx.run([exe, "membalancer", "--out", out] + [str(x) for x in args], timeout=900)
        if rc != 0:
            ctx.violation("membalancer:driver-died:%s" % prof,
                          "d_policy membalancer terminated abnormally rc=%s: %s" % (rc, o[-600:]),
                          out if os.path.exists(out) else None)
            continue
        s = summary(o)
        details.append({"profile": prof, **s})
        rows += s["rows"]
        first = first or out
        nparts = 1 if s["rows"] < 150000 else 1 + s["rows"] // 150000
        parts = vf.split_ndjson(out, nparts, ctx.work, "mb_%s_part" % prof, boundary_ev="NewDyn")
        for p in parts:
            nh = sum(1 for l in open(p) if l.startswith('{"ev":"New'))
            r = ctx.tlc_trace(TRACE_SPEC[0], TRACE_SPEC[1], p, spec_dir=sd, key="membalancer:row",
                              keyfn=keyfn, ntraces=nh, timeout=1700, xmx="8g",
                              what="heap size reported by the real trigger leaves [min,max] / a "
                                   "fixed heap size changed / the trigger panicked")
            hist += nh
    if first:
        with open(first) as f:
            n = 0
            for ln in f:
                if '"ev":"GCEnd"' in ln or '"ev":"NewDyn"' in ln:
                    ctx.sample(ln.strip()[:400])
                    n += 1
                    if n >= 3:
                        break
    if not quick and first:
        binding_demo(ctx, sd, first)
    ctx.cov["rows"] = rows
    ctx.cov["histories"] = hist
    ctx.cov["driver_runs"] = details
    ctx.cov["exhaustive"] = False
    ctx.cov["rule"] = ("one row per event of a history, each reporting "
                       "get_current_heap_size_in_pages() after the call; grid histories: 11 "
                       "(min,max) pairs x (324 one-GC histories + 16x16 two-GC [+ 8^3 three-GC]); "
                       "random histories: seeded, the stated number of GC cycles each; magnitude "
                       "classes A (<= 2^32 pages), B (<= 2^52), C (<= usize::MAX); 'histories' "
                       "counts NewDyn/NewFixed rows validated")
    ctx.assumptions.append("min <= max (validated by the DynamicHeapSize option); durations are "
                           "finite and >= 0 (differences of Instants)")


def binding_demo(ctx, sd, trace):
    """Vacuity control 3: push one reported heap size above max; TLC must reject that row."""
    lines = open(trace).read().splitlines()[:4000]
    idx = next((i for i, l in enumerate(lines) if '"ev":"GCEnd"' in l and '"k":"dyn"' in l), None)
    if idx is None:
        raise vf.ToolError("no row to corrupt")
    row = json.loads(lines[idx])
    row["cur"] = [65535, 65535, 65535, 65535]
    # make sure max is smaller in that history: find its NewDyn
    j = idx
    while j >= 0 and '"ev":"NewDyn"' not in lines[j]:
        j -= 1
    if json.loads(lines[j])["max"] == row["cur"]:
        raise vf.ToolError("unsuitable row for the binding demonstration")
    lines[idx] = json.dumps(row, separators=(",", ":"))
    bad = os.path.join(ctx.work, "mb_corrupted.ndjson")
    with open(bad, "w") as f:
        f.write("\n".join(lines) + "\n")
    rc, out, _ = ctx._tlc(sd, TRACE_SPEC[0], TRACE_SPEC[1], "binding_demo", 1, 600,
                          jvm=vf.TRACE_JVM, env={"TRACE": bad})
    rejected = ("ROW_REJECTED l=%d" % (idx + 1)) in out
    ctx.cov["binding_demo"] = {"corrupted_line": idx + 1, "rejected": rejected}
    if not rejected:
        raise vf.ToolError("binding demonstration failed: a corrupted trace was accepted")
