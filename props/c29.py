"""C29 — discontiguous chunk allocation keeps the region map consistent.
Spec: spec/map32/Map32.tla (descriptor map, region sizes, prev/next links, per-space list heads
as kept by CommonPageResource, available-chunk counter; actions Alloc / AllocFail / Release /
ReleaseAll / ReleaseAllAny; invariants RegionsDisjoint, DescExact, ListsExact, AvailExact). Three
mutant configurations (link not patched, descriptor not cleared, counter not restored) must be
rejected.
Binding: `d_layout map32` installs a compressed-pointer VMLayout (so that Map32 is the map MMTk
would use and SFT_MAP is the sparse chunk map), builds a private, real Map32 (hook VerifMap32:
Map32::new + finalize_static_space_map on a small window, fresh discontiguous descriptors) and
drives it either through the real CommonPageResource (grow_discontiguous_space /
release_discontiguous_chunks / release_all_chunks) or through the raw VMMap calls. After every
call it logs the descriptor of every chunk (first and last byte, plus the chunk on either side of
the window), the walk of every space's region list with region sizes, and the available-chunk
count; Trace_Map32.tla validates every row."""
import json
import os
import re
import threading
from concurrent.futures import ThreadPoolExecutor
import vf

META = {
    "level": "model_checking",
    "text": "TLC checks on all allocate/free histories over 5 chunks, 2 spaces, requests up to 3 "
            "chunks (6 chunks / 3 spaces in the thorough tier) that regions stay disjoint, "
            "descriptors name the owner exactly, the per-space doubly linked lists contain exactly "
            "the space's regions and the available count equals the free chunks; three broken "
            "variants are rejected. The real Map32 is then run on every history (modulo renaming "
            "of spaces) up to length 5 on 4 chunks / 2 spaces and length 3 on 5 chunks / 3 spaces "
            "(7 on 4 and 5 chunks / 2 spaces, 5 on 5 and 6 chunks / 3 spaces in the thorough tier), through CommonPageResource and through the raw "
            "VMMap calls (free_all_chunks from any region), plus long random histories on 24/64 "
            "chunks; TLC validates descriptors, list walks, region sizes and the available count "
            "after every call. Exhaustive small scope + random is the right level for a "
            "sequential map guarded by one lock.",
    "note": "Trusted: TLC, the VerifMap32 hook, the driver's bookkeeping of the regions it holds. "
            "Map32 is instantiated privately (not VM_MAP); it still uses the globals vm_layout() "
            "(max_chunks only) and SFT_MAP (cleared per freed chunk), which the driver initialises "
            "the way MMTK::new does. Not covered: concurrent callers (serialised by Map32::sync), "
            "the global page map / shared free lists (C26/C28), 32-bit targets.",
    "technique": "TLA+ spec (Map32.tla) model-checked with TLC; recorded histories of the real "
                 "code validated row by row with TLC (Trace_Map32.tla)",
}
SPEC_DIR = "map32"
TRACE_SPEC = ("Trace_Map32.tla", "Trace_Map32_n5s3.cfg")
WHAT = "real Map32 deviates from Map32.tla"


def _cfg(n, s):
    return "Trace_Map32_n%ds%d.cfg" % (n, s)


def keyfn(row):
    """Finding key of a rejected row (classification only; the verdict is TLC's)."""
    ev = row.get("ev")
    if ev == "Crash":
        return "map32:crash:%s" % re.sub(r"0x[0-9a-f]+|\d+", "#", row.get("msg", ""))[:80]
    if ev == "Hang":
        return "map32:hang"
    if ev == "Reset":
        return "map32:initial-state"
    if ev != "Op":
        return "map32:row:%s" % ev
    k = {"A": "alloc", "F": "free", "X": "free_all"}.get(row.get("k"), row.get("k"))
    return "map32:%s:%s" % (row.get("mode"), k)


def _history_of(lines, n):
    row = json.loads(lines[n - 1])
    d = row.get("d", 0)
    out = [lines[n - 1]]
    need = d - 1 if d > 0 else None
    i = n - 2
    while i >= 0:
        r = json.loads(lines[i])
        if r.get("ev") == "Reset":
            out.append(lines[i])
            break
        if need is None:
            out.append(lines[i])
        elif need >= 1 and r.get("d") == need:
            out.append(lines[i])
            need -= 1
        i -= 1
    return list(reversed(out))


_tls = threading.local()
_lock = threading.Lock()


def _patch_violation(ctx):
    """Make the replay file of a rejected row hold the row's complete history (Reset row, the rows
    of depth 1..d-1 it extends, the row) instead of the bare row. Trace validations of one check
    run in parallel threads: the trace being validated is thread-local."""
    orig = ctx.violation

    def violation(key, what, replay_src=None, extra=None):
        lines = getattr(_tls, "lines", None)
        m = re.search(r"first at line (\d+)", what or "")
        with _lock:
            if m and lines:
                tmp = os.path.join(ctx.work, "history_%s.ndjson" % re.sub(r"\W+", "_", key)[:80])
                with open(tmp, "w") as f:
                    f.write("\n".join(_history_of(lines, int(m.group(1)))) + "\n")
                replay_src = tmp
            return orig(key, what, replay_src, extra)

    ctx.violation = violation


def _validate(ctx, sd, cfg, path, name):
    """ctx.tlc_trace with (a) the complete history of the first rejected row as replay file,
    (b) PRECOND_FAILED (harness error) turned into a tool error."""
    lines = open(path).read().splitlines()
    _tls.lines = lines
    r = ctx.tlc_trace("Trace_Map32.tla", cfg, path, spec_dir=sd, name=name, key="map32:trace",
                      what=WHAT, ntraces=sum(1 for x in lines if '"ev":"Op"' in x[:12]),
                      keyfn=keyfn, timeout=1500)
    log = open(os.path.join(ctx.work, "tlc_%s.log" % name)).read()
    if "PRECOND_FAILED" in log and r.get("rejected_rows", 0) == 0:
        raise vf.ToolError("harness error: %s" % re.search(r"PRECOND_FAILED.*", log).group(0)[:300])
    return r


def _drive(ctx, exe, out, args):
    rc, o = ctx.run([exe, "map32", "--out", out] + [str(a) for a in args], timeout=1500)
    if rc != 0:
        if rc < 0 and rc != -9:
            ctx.violation("map32:driver-signal:%d" % -rc,
                          "driver killed by signal %d while exercising Map32 (args %s)" % (-rc, args))
            return 0, 0
        raise vf.ToolError("d_layout map32 failed: rc=%s\n%s" % (rc, o[-2000:]))
    m = re.search(r"rows=(\d+) lines=\d+ fallbacks=(\d+)", o)
    return (int(m.group(1)), int(m.group(2))) if m else (0, 0)


def run(ctx):
    sd = os.path.join(vf.SPEC, SPEC_DIR)
    # VERIF_LAYOUT_EXE: use a driver built elsewhere (mutation experiments on a scratch copy of
    # /repo, so that other people's builds never see the mutation)
    exe = os.environ.get("VERIF_LAYOUT_EXE") or ctx.build("d_layout")
    quick = ctx.tier == "quick"
    acts = ["Alloc", "AllocFail", "Release", "ReleaseAll", "ReleaseAllAny"]
    ctx.tlc_mc("Map32.tla", "MC_Map32.cfg", spec_dir=sd, require_actions=acts)
    if not quick:
        ctx.tlc_mc("Map32.tla", "MC_Map32_big.cfg", spec_dir=sd, require_actions=acts, timeout=1500)
    for mut in (("link", "desc") if quick else ("link", "desc", "avail")):
        ctx.tlc_mc("Map32.tla", "MC_Map32_mutant_%s.cfg" % mut, spec_dir=sd, expect_violation=True)

    def tree(n, s, req, depth, api, extra=()):
        return ["--mode", "tree", "--n", n, "--spaces", s, "--maxreq", req, "--depth", depth,
                "--api", api] + list(extra)

    def rnd(n, s, req, hist, maxlen, extra=()):
        return ["--mode", "random", "--n", n, "--spaces", s, "--maxreq", req, "--hist", hist,
                "--maxlen", maxlen, "--api", "pr,raw"] + list(extra)

    R = ["--recycle"]
    if quick:
        plan = [
            ("t4p", 4, 2, tree(4, 2, 2, 5, "pr", R)),
            ("t4r", 4, 2, tree(4, 2, 2, 4, "raw", R)),
            ("t5", 5, 3, tree(5, 3, 3, 3, "pr,raw", R)),
            ("f5", 5, 3, tree(5, 3, 3, 2, "pr,raw")),          # fresh instance per history
            ("r24", 24, 3, rnd(24, 3, 4, 3, 300)),
        ]
    else:
        plan = [("t4p%d" % i, 4, 2, tree(4, 2, 2, 7, "pr", R + ["--shard", "%d/6" % i])) for i in range(6)]
        plan += [("t4r%d" % i, 4, 2, tree(4, 2, 2, 6, "raw", R + ["--shard", "%d/2" % i])) for i in range(2)]
        plan += [("u5p%d" % i, 5, 2, tree(5, 2, 2, 7, "pr", R + ["--shard", "%d/6" % i])) for i in range(6)]
        plan += [
            ("t5p", 5, 3, tree(5, 3, 3, 5, "pr", R)),
            ("t5r", 5, 3, tree(5, 3, 3, 5, "raw", R)),
            ("t6p", 6, 3, tree(6, 3, 3, 5, "pr", R)),
            ("t6r", 6, 3, tree(6, 3, 3, 4, "raw", R)),
            ("f4", 4, 2, tree(4, 2, 2, 4, "pr,raw")),
            ("f5", 5, 3, tree(5, 3, 3, 3, "pr,raw")),
            ("l32", 5, 3, tree(5, 3, 3, 3, "pr,raw", R + ["--layout", "32bit", "--offset", 0])),
            ("l64", 5, 3, tree(5, 3, 3, 3, "pr,raw", R + ["--layout", "default64", "--offset", 5000])),
            ("r24", 24, 3, rnd(24, 3, 4, 25, 600)),
            ("r64", 64, 3, rnd(64, 3, 6, 15, 1000)),
            ("r64b", 64, 3, rnd(64, 3, 6, 5, 1000, ["--layout", "32bit"])),
        ]
    _patch_violation(ctx)
    # traces with the same constants are concatenated (each starts with its own Reset row) so
    # that one TLC run validates them; up to 3 independent driver+TLC pipelines run in parallel
    groups = {}
    for name, n, s, args in plan:
        g = name if not quick else "n%ds%d" % (n, s)
        groups.setdefault(g, []).append((name, n, s, args))

    def pipeline(g):
        rows = fb = 0
        merged = os.path.join(ctx.work, "m32_%s.ndjson" % g)
        parts = []
        for name, n, s, args in groups[g]:
            out = os.path.join(ctx.work, "m32_part_%s.ndjson" % name)
            if os.path.exists(out):
                os.remove(out)
            r, f = _drive(ctx, exe, out, args)
            rows += r
            fb += f
            if os.path.exists(out):
                parts.append(out)
        with open(merged, "w") as w:
            for p in parts:
                with open(p) as f:
                    w.write(f.read())
                os.remove(p)
        n, s = groups[g][0][1], groups[g][0][2]
        if parts:
            _validate(ctx, sd, _cfg(n, s), merged, "m32_" + g)
        return rows, fb

    total = 0
    fallbacks = 0
    with ThreadPoolExecutor(max_workers=3) as ex:
        for rows, fb in ex.map(pipeline, list(groups)):
            total += rows
            fallbacks += fb
    g0 = list(groups)[0]
    first = (os.path.join(ctx.work, "m32_%s.ndjson" % g0), groups[g0][0][1], groups[g0][0][2])
    ctx.sample_lines(first[0], 3)
    ctx.cov["rows"] = total
    ctx.cov["recycle_fallbacks"] = fallbacks
    ctx.cov["distinct_nontrivial"] = _nontrivial(ctx, plan)
    if not quick:
        _binding_demo(ctx, sd, first)
    ctx.cov["exhaustive"] = True
    ctx.cov["rule"] = (
        "tree runs: every history of allocate(s, 1..maxreq) / free(any region the driver holds) / "
        "free-all(s) (raw API: free_all_chunks from any region of s) up to the stated depth, "
        "spaces used in first-use order (removes renamings), one row per call; with --recycle the "
        "history runs on the previous instance after all spaces were released (the observation "
        "after the release is part of the row and must be the initial state; a prefix call that "
        "returns a different region than when it was logged makes the driver fall back to a fresh "
        "instance: recycle_fallbacks), otherwise on a fresh Map32. random runs: long seeded "
        "histories with grow / mixed / shrink phases on a fresh instance each. "
        "distinct_nontrivial = rows freeing a region that is neither first nor last of a list of "
        ">= 3 regions (middle unlink).")
    ctx.assumptions += [
        "allocation fails (zero address) exactly when no run of the requested length is free in "
        "the discontiguous range (documented: 'allocate contiguous chunks')",
        "free_contiguous_chunks is only called with the first chunk of a region the caller holds; "
        "the list head follows the protocol of CommonPageResource",
        "the order of a space's region list and which free run an allocation takes are not "
        "constrained",
    ]


def _nontrivial(ctx, plan):
    n = 0
    import glob
    for p in sorted(glob.glob(os.path.join(ctx.work, "m32_*.ndjson"))):
        if "demo" in p or "part" in p:
            continue
        stack = {}
        cur = 0
        for line in open(p):
            r = json.loads(line)
            if r.get("ev") == "Reset":
                stack = {0: r["walk"]}
                cur = 0
                continue
            if r.get("ev") != "Op":
                continue
            d = r["d"] if r["d"] > 0 else cur + 1
            pre = stack.get(d - 1)
            stack[d] = r["walk"]
            cur = d
            if pre is None or r["k"] != "F":
                continue
            w = [x[0] for x in pre[r["s"] - 1]]
            if len(w) >= 3 and r["r"] in w[1:-1]:
                n += 1
    return n


def _binding_demo(ctx, sd, first):
    """Thorough tier: corrupt one logged field of an accepted trace and confirm that exactly that
    row is rejected."""
    path, n, s = first
    lines = open(path).read().splitlines()[:3000]
    idx = next(i for i, l in enumerate(lines) if i > 20 and '"ev":"Op"' in l[:12])
    r = json.loads(lines[idx])
    r["avail"] += 1
    lines[idx] = json.dumps(r, separators=(",", ":"))
    bad = os.path.join(ctx.work, "m32_demo_corrupt.ndjson")
    with open(bad, "w") as f:
        f.write("\n".join(lines) + "\n")
    rc, out, _ = ctx._tlc(sd, "Trace_Map32.tla", _cfg(n, s), "m32_demo", 1, 600, jvm=vf.TRACE_JVM,
                          env={"TRACE": bad})
    hit = re.findall(r"ROW_REJECTED l=(\d+)", out)
    if str(idx + 1) not in hit:
        raise vf.ToolError("binding demonstration failed: corrupted row %d not rejected (%s)" % (idx + 1, hit))
    ctx.cov["binding_demo"] = "corrupted field avail of line %d: rejected rows %s" % (idx + 1, sorted(set(hit)))


def replay(ctx, path):
    lines = open(path).read().splitlines()
    print("replay header:", lines[0][:2000])
    body = lines[1:]
    r0 = json.loads(body[0])
    tmp = os.path.join(ctx.work, "replay.ndjson")
    with open(tmp, "w") as f:
        f.write("\n".join(body) + "\n")
    sd = os.path.join(vf.SPEC, SPEC_DIR)
    rc, out, _ = ctx._tlc(sd, "Trace_Map32.tla", _cfg(r0["n"], r0["spaces"]), "replay", 1, 900,
                          jvm=vf.TRACE_JVM, env={"TRACE": tmp})
    bad = sorted({int(x) for x in re.findall(r"ROW_REJECTED l=(\d+)", out)})
    for b in bad:
        print("rejected row (line %d of the replay body): %s" % (b, body[b - 1][:1500]))
    print("replay result:", "REJECTED" if bad else "accepted", "rows:", len(body))
    return 1 if bad else 0
