"""Shared driver for the whole-system properties (C01, C02, C04, C07 ...): runs gcdrive (real MMTk
with the ShadowVM binding) over a matrix of plans x feature builds x configurations, validates every
recorded trace against spec/heap/HeapTrace.tla with TLC, and attributes each rejected guard to the
property named in its tag."""
import concurrent.futures as cf
import json
import os
import re

import vf

SD = os.path.join(vf.SPEC, "heap")
PLANS = ["NoGC", "SemiSpace", "GenCopy", "GenImmix", "MarkSweep", "PageProtect", "Immix",
         "MarkCompact", "Compressor", "StickyImmix", "ConcurrentImmix"]


# plan -> allocation semantics (codes) that trigger a recorded defect of the pinned snapshot
EXCLUDED_SEMS = {"MarkCompact": {"6"}, "Compressor": {"1", "6"}}


HEAP_EVENTS = {"Boot", "Reset", "Alloc", "AllocCall", "AllocFail", "Write", "Load", "SetRoot", "Bind",
               "Destroy", "Pin", "Unpin", "GCEnd", "GCRequest", "GCReturn", "Crash", "GridStart",
               "GridEnd", "CycleEnd", "Probes", "OutOfMemory", "OptCall", "OptRet", "BlockEnter",
               "BlockExit", "Resume", "End", "OomRound", "ConcurrentWait", "StopEnter", "StopExit",
               "AddCandidate", "AddFinalizer", "PopFinalized", "EnqueueRefs", "ClearReferent",
               "WeakTable", "RegionCopy", "BarrierSlow", "ProcessModBuf", "PostChurn"}


def variant_of(plan):
    return 1 if plan == "Compressor" else 0


class Run:
    def __init__(self, plan, feats=(), name="base", workers=3, mutators=2, heap=24, programs=10,
                 ops=150, sems="0,0,0,0,1,2,6", opts="", extra=(), known_key=None, seed_off=0,
                 release=False, variant_bits=0):
        self.plan, self.feats, self.name = plan, tuple(sorted(feats)), name
        self.workers, self.mutators, self.heap = workers, mutators, heap
        self.programs, self.ops, self.sems, self.opts = programs, ops, sems, opts
        self.extra, self.known_key, self.seed_off, self.release = list(extra), known_key, seed_off, release
        self.variant_bits = variant_bits
        if plan == "NoGC":
            # nothing is ever reclaimed: the model keeps every object, keep the runs short
            self.heap = 3000
            self.programs = min(self.programs, 4)
            self.ops = min(self.ops, 120)
        if known_key is None and plan in EXCLUDED_SEMS:
            # Recorded defects (KNOWN_FINDINGS.json): ordinary runs stay clear of the semantics
            # that trigger them under this plan; the dedicated probe runs exercise them.
            self.sems = ",".join(x for x in self.sems.split(",")
                                 if x not in EXCLUDED_SEMS[plan]) or "0"

    @property
    def label(self):
        return "%s-%s-%s" % (self.plan, "+".join(self.feats) or "default", self.name)

    def argv(self, exe, out):
        a = [exe, "--plan", self.plan, "--variant", str(variant_of(self.plan) | self.variant_bits), "--heap",
             str(self.heap), "--workers", str(self.workers), "--mutators", str(self.mutators),
             "--programs", str(self.programs), "--ops", str(self.ops), "--sems", self.sems,
             "--out", out]
        if self.opts:
            a += ["--opts", self.opts]
        return a + self.extra


def matrix(tier, focus="general"):
    runs = []
    if tier == "quick":
        for p in PLANS:
            runs.append(Run(p, programs=6, ops=140, mutators=3, extra=["--bind"]))
            runs.append(Run(p, feats=["vo_bit"], name="small", heap=8, workers=4, programs=5,
                            ops=180, seed_off=1, mutators=2, extra=["--bind"]))
    else:
        for p in PLANS:
            for i, w in enumerate([1, 2, 4, 8]):
                runs.append(Run(p, name="w%d" % w, workers=w, mutators=1 + i % 3, programs=25,
                                ops=200, seed_off=i))
            runs.append(Run(p, feats=["vo_bit"], name="small", heap=8, workers=4, programs=30,
                            ops=250, seed_off=5))
            runs.append(Run(p, feats=["vo_bit"], name="tiny", heap=5, workers=2, programs=30,
                            ops=250, seed_off=6, extra=["--nobig"]))
            runs.append(Run(p, feats=["object_pinning"], name="pin", programs=20, seed_off=7))
            runs.append(Run(p, feats=["immortal_as_nonmoving"], name="nmimm", programs=15, seed_off=8))
            runs.append(Run(p, name="stress", opts="stress_factor=65536", programs=15, seed_off=9,
                            heap=16))
            runs.append(Run(p, name="bind", programs=15, seed_off=10, extra=["--bind"], mutators=3))
            runs.append(Run(p, name="rel", programs=20, seed_off=11, release=True))
        for p in ["Immix", "GenImmix", "StickyImmix", "ConcurrentImmix"]:
            runs.append(Run(p, feats=["immix_smaller_block"], name="sb", programs=20, seed_off=12))
            runs.append(Run(p, feats=["immix_non_moving"], name="ixnm", programs=15, seed_off=13))
            runs.append(Run(p, name="defrag", programs=20, seed_off=14, heap=10,
                            opts="immix_always_defrag=true,immix_defrag_every_block=true"))
            runs.append(Run(p, name="stressdefrag", programs=15, seed_off=15, heap=10,
                            opts="immix_stress_defrag=true"))
        runs.append(Run("StickyImmix", feats=["sticky_immix_non_moving_nursery"], name="sxnm",
                        programs=20, seed_off=16))
    if focus == "nonmoving" and tier == "quick":
        # C04: pin_object in object_pinning builds, where the policy supports the call; the
        # sticky plan pins young objects that its nursery collections would otherwise copy
        for p in ["Immix", "GenImmix", "StickyImmix"]:
            runs.append(Run(p, feats=["object_pinning"], name="pin", heap=10, programs=6, ops=160,
                            seed_off=7, sems="0,0,0,0,0,0,0,2",
                            opts="immix_always_defrag=true,immix_defrag_every_block=true"
                            if p == "Immix" else ""))
    if focus == "vo":
        # C07/C08: valid-object bit builds only, with lookup probes after every forced collection
        runs = [r for r in runs if "vo_bit" in r.feats]
        for r in runs:
            r.extra += ["--probes", "--dense"]
        if tier != "quick":
            for p in PLANS:
                runs.append(Run(p, feats=["vo_bit", "object_pinning"], name="vopin", programs=20,
                                seed_off=21, extra=["--probes"]))
                runs.append(Run(p, feats=["vo_bit"], name="vorel", programs=25, seed_off=22,
                                release=True, extra=["--probes"]))
        return runs
    if focus != "general":
        return runs
    # recorded defects (registered under C01): exercised on purpose, reported as KNOWN-FINDING
    runs.append(Run("MarkCompact", name="nonmoving-probe", sems="0,0,6,6,6", programs=6,
                    known_key="MarkCompact+NonMoving"))
    runs.append(Run("Compressor", name="immortal-referrer-probe", sems="0,0,1,6", programs=6,
                    known_key="Compressor+Immortal/NonMoving-referrer"))
    # (repaired defect, 7bc4a11 + 262d8b4: kept as an ordinary run so that a regression is reported)
    runs.append(Run("ConcurrentImmix", name="nonmoving", sems="0,0,6,6", programs=8))
    return runs


def grid_matrix(tier):
    """C03: the allocation argument grid, fresh and used heap."""
    runs = []
    for p in PLANS:
        heap = 96
        runs.append(Run(p, name="grid", heap=heap, programs=2, ops=120, extra=["--mode", "grid"]))
        if tier != "quick":
            runs.append(Run(p, name="grid-rel", heap=heap, programs=6, ops=200, release=True,
                            extra=["--mode", "grid"], seed_off=3))
            runs.append(Run(p, name="grid-small", heap=40, programs=6, ops=200, workers=1,
                            extra=["--mode", "grid"], seed_off=4))
            runs.append(Run(p, name="grid-a4096", heap=160, programs=3, ops=150, variant_bits=2,
                            extra=["--mode", "grid"], seed_off=5))
            runs.append(Run(p, feats=["immortal_as_nonmoving"], name="grid-nmimm", heap=heap,
                            programs=3, extra=["--mode", "grid"], seed_off=6))
    # stress options: the allocators' precise-stress slow paths serve every request of the grid
    for p in (["SemiSpace", "GenCopy", "Immix"] if tier == "quick" else [q for q in PLANS if q != "NoGC"]):
        runs.append(Run(p, name="grid-stress", heap=96, programs=1, ops=80, seed_off=7,
                        opts="stress_factor=2097152", extra=["--mode", "grid"]))
    # recorded defect: MarkSweep Default request whose padded size exceeds the largest size class
    runs.append(Run("MarkSweep", name="grid-padprobe", heap=96, programs=0, sems="0",
                    extra=["--mode", "grid", "--padprobe"], known_key="MarkSweep:padded-size-exceeds-largest-class"))
    return runs


def cycle_matrix(tier):
    """C09: allocate / (collect while live) / drop / collect cycles."""
    runs = []
    for p in PLANS:
        if p == "NoGC":
            continue
        x = []
        if tier == "quick":
            runs.append(Run(p, name="cycles", heap=16, sems="0,0,0,2,6",
                            extra=["--mode", "cycles", "--cycles", "24"] + x))
            if p in ("Immix", "SemiSpace", "GenCopy", "MarkSweep"):
                # requests first made with at_safepoint = false (refused when a collection is due)
                runs.append(Run(p, name="cycles-tryfirst", heap=16, sems="0,0,0,2", seed_off=5,
                                extra=["--mode", "cycles", "--cycles", "16", "--tryfirst"]))
        else:
            runs.append(Run(p, name="cycles", heap=16, sems="0,0,0,2,6",
                            extra=["--mode", "cycles", "--cycles", "320"] + x))
            if p in ("Immix", "SemiSpace", "GenCopy", "MarkSweep", "GenImmix", "StickyImmix"):
                # (every cycle has about ten allocation-triggered collections: the process trace also
                # carries their scheduler events, so the number of cycles stays moderate)
                runs.append(Run(p, name="cycles-tryfirst", heap=16, sems="0,0,0,2,6", seed_off=5,
                                extra=["--mode", "cycles", "--cycles", "40", "--tryfirst"]))
            runs.append(Run(p, name="cycles-big", heap=64, sems="0,0,2", workers=8, seed_off=1,
                            extra=["--mode", "cycles", "--cycles", "80"] + x))
            runs.append(Run(p, name="cycles-rel", heap=24, sems="0,0,0,2,6", release=True, seed_off=2,
                            extra=["--mode", "cycles", "--cycles", "400"] + x))
            runs.append(Run(p, feats=["immortal_as_nonmoving"], name="cycles-nmimm", heap=16,
                            sems="0,0,2", seed_off=3, extra=["--mode", "cycles", "--cycles", "100"] + x))
            runs.append(Run(p, feats=["immix_smaller_block"], name="cycles-sb", heap=16,
                            sems="0,0,2", seed_off=4, extra=["--mode", "cycles", "--cycles", "100"] + x))
    return runs


def oom_matrix(tier):
    """C10: allocation options x request sizes in heaps that fill up."""
    runs = []
    for p in PLANS:
        heap = 64 if p == "NoGC" else 16
        runs.append(Run(p, name="oom", heap=heap, sems="0,2",
                        extra=["--mode", "oom", "--rounds", "2" if tier == "quick" else "6"]))
        if tier != "quick":
            runs.append(Run(p, name="oom-rel", heap=heap if p == "NoGC" else 24, sems="0,2", release=True,
                            seed_off=1, workers=1, extra=["--mode", "oom", "--rounds", "6"]))
            runs.append(Run(p, name="oom-small", heap=heap if p == "NoGC" else 8, sems="0,2", seed_off=2,
                            workers=4, extra=["--mode", "oom", "--rounds", "4"]))
    # dynamic heap size (MemBalancer): requests between the current and the maximum heap size are
    # not "larger than the maximum heap"
    for p in (["Immix", "SemiSpace", "GenCopy"] if tier == "quick" else [q for q in PLANS if q != "NoGC"]):
        runs.append(Run(p, name="oom-dyn", heap=16, sems="0,2", seed_off=3,
                        extra=["--mode", "oom", "--rounds", "3" if tier == "quick" else "6",
                               "--trigger", "DynamicHeapSize:3m,16m"]))
    # recorded defects, exercised on purpose
    runs.append(Run("NoGC", name="oom-hugesize-probe", heap=64, sems="0",
                    extra=["--mode", "oom", "--rounds", "1", "--hugesize"],
                    known_key="NoGC:size>=2^63:address-overflow"))
    return runs


def _crash_key(row, run):
    loc = row.get("loc", "")
    loc = re.sub(r"^(/.*)?/repo/", "", loc)
    loc = re.sub(r":\d+$", "", loc)
    msg = re.sub(r"0x[0-9a-fA-F]+|\d+", "#", row.get("msg", ""))[:80]
    return "crash:%s:%s:%s" % (run.plan, loc, msg)


def make_keyfn(run, prefixes):
    def keyfn(row):
        tag = row.get("_tag") or "untagged"
        if run.known_key:
            return run.known_key
        if tag == "crash":
            return _crash_key(row, run)
        if not any(tag.startswith(p) for p in prefixes):
            return None
        return "%s:%s:%s" % (tag, run.plan, "+".join(run.feats) or "default")
    return keyfn


def execute(ctx, runs, prefixes, par_run=6, par_tlc=6, spec=None):
    """Build, run and validate. Returns aggregated HEAP_STATS."""
    exes = {}
    for fs, rel in sorted({(r.feats, r.release) for r in runs}):
        exes[(fs, rel)] = ctx.build("gcdrive", features=list(fs), release=rel)
    outdir = os.path.join(ctx.work, "traces")
    os.makedirs(outdir, exist_ok=True)

    def do_run(r):
        out = os.path.join(outdir, r.label + ".ndjson")
        if os.path.exists(out):
            os.remove(out)
        rc, o = ctx.run(r.argv(exes[(r.feats, r.release)], out), timeout=600,
                        env={"VERIF_SEED": str(ctx.seed * 100 + r.seed_off)})
        if not os.path.exists(out):
            raise vf.ToolError("gcdrive produced no trace for %s: rc=%s %s" % (r.label, rc, o[-1500:]))
        lines = open(out, errors="replace").read().splitlines()
        if lines and not lines[-1].endswith("}"):
            lines = lines[:-1]          # torn last line of a killed process
        has_crash = any(l.startswith('{"ev":"Crash"') for l in lines[-5:])
        if rc != 0 and not has_crash:
            what = "hang (no progress within the time limit)" if rc == -9 else "process died rc=%s" % rc
            tail = re.sub(r"[^\x20-\x7e]", " ", o[-300:])
            lines.append(json.dumps({"ev": "Crash", "msg": what + " " + tail, "loc": "process", "th": -1},
                                    separators=(",", ":")))
        # The same process trace also carries scheduler/page-resource events for other
        # specifications; HeapTrace (and Trace_AllocOpts) get the projection on the events they
        # consume (dropping whole events, nothing else).
        keep = [l for l in lines if l[7:l.find('"', 7)] in HEAP_EVENTS]
        with open(out, "w") as f:
            f.write("\n".join(keep) + "\n")
        return r, out, rc

    stats = {"programs": 0, "allocs": 0, "writes": 0, "gcs": 0, "moved": 0, "survivors": 0,
             "events": 0, "runs": 0}
    results = []
    with cf.ThreadPoolExecutor(par_run) as ex:
        results = list(ex.map(do_run, runs))

    def do_val(item):
        r, out, rc = item
        mod, cfg, sdir = spec or ("HeapTrace.tla", "HeapTrace.cfg", SD)
        res = ctx.tlc_trace(mod, cfg, out, spec_dir=sdir, name="t_" + r.label,
                            keyfn=make_keyfn(r, prefixes), replay_whole=True,
                            what="whole-system trace of %s rejected by HeapTrace" % r.label,
                            key=r.known_key, timeout=1200)
        log = open(os.path.join(ctx.work, "tlc_t_%s.log" % r.label)).read()
        m2 = re.search(r"OPT_STATS calls=(\d+)", log)
        m = re.search(r"HEAP_STATS \[(.*?)\]", log)
        st = {}
        if m:
            for kv in m.group(1).split(","):
                k, v = kv.split("|->")
                st[k.strip()] = int(v.strip())
        if m2:
            st["calls"] = int(m2.group(1))
        return r, res, st

    with cf.ThreadPoolExecutor(par_tlc) as ex:
        for r, res, st in ex.map(do_val, results):
            for k, v in st.items():
                stats[k] = stats.get(k, 0) + v
            stats["events"] += res["events"]
            stats["runs"] += 1
    if results:
        ctx.sample_lines(results[0][1], 12, 400)
    return stats


def design_mc(ctx):
    """Design-level model checking of Heap.tla (shared by C01, C02, C04)."""
    if not os.path.exists(os.path.join(SD, "Heap.tla")):
        return
    cfg = "MC_Heap.cfg" if ctx.tier == "quick" else "MC_Heap_thorough.cfg"
    if not os.path.exists(os.path.join(SD, cfg)):
        cfg = "MC_Heap.cfg"
    ctx.tlc_mc("Heap.tla", cfg, spec_dir=SD, workers=4, timeout=1500)
    for m in sorted(f for f in os.listdir(SD) if f.startswith("MC_Heap_mutant") and f.endswith(".cfg")):
        ctx.tlc_mc("Heap.tla", m, spec_dir=SD, expect_violation=True, workers=2, timeout=600)
