"""C23 — in-header metadata fields are isolated and report their own previous value.
Spec: spec/headermeta/HeaderMeta.tla. The property is stated declaratively on bit positions and
integers (Isolation: only the field's / mask's bits change; RetPrev: value-returning calls return
the field's previous value only; Effect: the new value is the operation's function of the old one)
and TLC checks, for every window content, legal spec and call of small models (3-bit and 2-bit
"bytes"), that the constructive byte-level definition `Apply` satisfies it; three spec mutants
(compare_exchange reporting the containing byte, a store clobbering the byte, byte addressing that
truncates negative offsets) must be rejected.
Binding: harness/d_header `header` calls the real HeaderMetadataSpec accessors on a 56-byte window
(bit offsets -128..127, widths 1..7 in a byte and 8/16/32/64 aligned, masks, backgrounds
00/FF/A5/random, single calls, all call sequences over neighbouring fields, random histories) and
Trace_HeaderMeta (BB = 8) validates every recorded call: window bytes after the call and the
returned value."""
import json
import os
import re
import vf

META = {
    "level": "model_checking",
    "text": "TLC checks on small-byte models (3-bit bytes x 2-byte window, 2-bit bytes x 2-byte "
            "window; thorough adds 3-bit x 3 bytes, 2-bit x 4 bytes, 4-bit x 2 bytes: every window content x every legal header spec x every accessor call incl. "
            "masks) that the byte-level definition of the accessors changes only the field's bits "
            "and returns only the field's previous value, and rejects three broken variants. The "
            "real accessors are then run over all sub-byte specs of selected header bytes (all 32 "
            "bytes in the thorough tier) and all aligned 8/16/32/64-bit specs in bit offsets "
            "-128..127 x 4 backgrounds x all operations x value classes x masks, all operation "
            "sequences of length 2 (3 thorough) over fields sharing a byte, and random histories; "
            "TLC validates the window bytes and the result of every recorded call. Exhaustive "
            "small-scope model checking plus exhaustive-grid + random trace validation is the right "
            "level for single-threaded accessor semantics over a 2^64 value space.",
    "note": "Trusted: TLC and its Json/Bitwise library modules (Bitwise is cross-checked against "
            "the reference definition), the harness's raw byte reads of the window. Accessors are "
            "exercised single-threaded (atomicity under races is C18's subject); memory orderings "
            "are fixed to SeqCst. Preconditions: values fit the field, compare_exchange arguments "
            "lie inside the mask, sub-byte specs take no mask.",
    "technique": "TLA+ spec (HeaderMeta.tla) checked with TLC; recorded calls of the real accessors "
                 "validated row by row with TLC (Trace_HeaderMeta.tla)",
}
SPEC_DIR = "headermeta"
TRACE_SPEC = ("Trace_HeaderMeta.tla", "Trace_HeaderMeta.cfg")
JVM_ENV = {"JAVA_TOOL_OPTIONS": "-XX:ParallelGCThreads=2"}

OPNAME = {"cas": "compare_exchange", "add": "fetch_add", "sub": "fetch_sub", "and": "fetch_and",
          "or": "fetch_or", "upd": "fetch_update"}


def split_at_pre(path, max_rows, outdir, prefix):
    """Split the trace into parts of about max_rows rows; a part may only start at a row that
    carries `pre` (the window contents before the call)."""
    parts, cur = [], []
    with open(path) as f:
        for line in f:
            if len(cur) >= max_rows and '"pre":' in line:
                parts.append(cur)
                cur = []
            cur.append(line)
    if cur:
        parts.append(cur)
    out = []
    for i, rows in enumerate(parts):
        p = os.path.join(outdir, "%s_%d.ndjson" % (prefix, i))
        with open(p, "w") as f:
            f.writelines(rows)
        out.append(p)
    return out


def keyfn(row):
    """Finding key of a rejected row: operation, the deviating part as classified by the trace
    specification (the tag of its ROW_REJECTED line), width class and mask use."""
    op = OPNAME.get(row.get("k"), row.get("k"))
    key = "header.%s:%s:%s" % (op, row.get("_tag") or "?",
                               "bits<8" if row.get("w", 0) < 8 else "bits>=8")
    if row.get("m") == 1:
        key += ":masked"
    return key


def mc(ctx, sd, module, cfg, action, **kw):
    """Model check and require that `action` was taken (vf's require_actions does not recognise
    TLC's coverage line when the action's location carries a sub-expression suffix)."""
    res = ctx.tlc_mc(module, cfg, spec_dir=sd, env=JVM_ENV, **kw)
    log = open(os.path.join(ctx.work, "tlc_%s.log" % res["name"])).read()
    m = re.search(r"^<%s line [^>]*>: (\d+):(\d+)" % action, log, re.M)
    if not m or int(m.group(2)) == 0:
        raise vf.ToolError("action %s never taken in %s (vacuous model)" % (action, cfg))
    ctx.cov["mc_runs"][-1].setdefault("actions", {})[action] = int(m.group(2))
    return res


def validate(ctx, sd, path, name):
    n = sum(1 for _ in open(path))
    return ctx.tlc_trace(TRACE_SPEC[0], TRACE_SPEC[1], path, spec_dir=sd, name=name,
                         key="header:row", keyfn=keyfn, ntraces=n, env=JVM_ENV,
                         timeout=1500,
                         what="real HeaderMetadataSpec accessor deviates from HeaderMeta "
                              "(window bytes or returned value)")


def binding_demo(ctx, sd, path):
    """Vacuity control of the binding: corrupt single logged fields of accepted rows and confirm
    that the trace specification rejects exactly those rows."""
    rows = []
    with open(path) as f:
        for line in f:
            rows.append(json.loads(line))
            if len(rows) >= 400:
                break
    victims = {}
    for idx, r in enumerate(rows):
        if r["ev"] != "Op":
            continue
        if r["k"] == "store" and "post" not in victims and r["w"] < 8:
            r["post"][3] ^= 0x10  # a guard byte far from the field changed
            victims["post"] = idx + 1
        elif r["k"] == "add" and "ret" not in victims:
            r["ret"]["v"][0] ^= 0x01
            victims["ret"] = idx + 1
        elif r["k"] == "upd" and r["fk"] == "const" and "seen" not in victims and r["seen"]:
            r["seen"][0][0] ^= 0x01
            victims["seen"] = idx + 1
    p = os.path.join(ctx.work, "corrupted.ndjson")
    with open(p, "w") as f:
        for r in rows:
            f.write(json.dumps(r, separators=(",", ":")) + "\n")
    rc, out, _ = ctx._tlc(sd, TRACE_SPEC[0], TRACE_SPEC[1], "binding_demo", 1, 600,
                          jvm=vf.TRACE_JVM, env=dict(JVM_ENV, TRACE=p))
    got = {int(n): w for n, w in re.findall(r"ROW_REJECTED l=(\d+) tag=([\w.\-]+)", out)}
    res = {k: got.get(line) for k, line in victims.items()}
    ctx.cov["binding_demo"] = res
    if len(victims) < 3 or any(res[k] != k for k in victims):
        raise vf.ToolError("binding demonstration failed: corrupted rows %s classified %s"
                           % (victims, res))


def run(ctx):
    sd = os.path.join(vf.SPEC, SPEC_DIR)
    quick = ctx.tier == "quick"
    exe = ctx.build("d_header")
    # ---- model checking ---------------------------------------------------------------------
    mc(ctx, sd, "HeaderMeta.tla", "MC_HeaderMeta.cfg", "Flip")
    mc(ctx, sd, "HeaderMeta.tla", "MC_HeaderMeta_wide.cfg", "Flip")
    ctx.tlc_mc("HeaderMeta.tla", "MC_HeaderMeta_mutant_casret.cfg", spec_dir=sd,
               expect_violation=True, env=JVM_ENV)
    if not quick:
        mc(ctx, sd, "HeaderMeta.tla", "MC_HeaderMeta_deep.cfg", "Flip", timeout=1500)
        mc(ctx, sd, "HeaderMeta.tla", "MC_HeaderMeta_deep2.cfg", "Flip", timeout=1500)
        mc(ctx, sd, "HeaderMeta.tla", "MC_HeaderMeta_deep3.cfg", "Flip", timeout=1500)
        ctx.tlc_mc("HeaderMeta.tla", "MC_HeaderMeta_mutant_clobber.cfg", spec_dir=sd,
                   expect_violation=True, env=JVM_ENV)
        ctx.tlc_mc("HeaderMeta.tla", "MC_HeaderMeta_mutant_negoff.cfg", spec_dir=sd,
                   expect_violation=True, env=JVM_ENV)
        mc(ctx, sd, "BitwiseCheck.tla", "MC_Bitwise.cfg", "Step")
    # ---- the real accessors -------------------------------------------------------------------
    out = os.path.join(ctx.work, "header.ndjson")
    args = [exe, "header", "--out", out]
    if quick:
        args += ["--level", "0", "--hist", "100", "--hlen", "40", "--seqlen", "2"]
    else:
        args += ["--level", "1", "--hist", "2000", "--hlen", "60", "--seqlen", "3"]
    rc, o = ctx.run(args, timeout=900)
    if rc != 0:
        # the driver catches panics of the accessors; anything else is a crash of the code under
        # test outside a panic (e.g. a fault) or a harness error
        if rc < 0 and rc != -9:
            ctx.violation("header:driver-killed", "driver terminated by signal %d while calling "
                          "the accessors: %s" % (-rc, o[-500:]))
            return
        raise vf.ToolError("d_header header failed: rc=%s\n%s" % (rc, o[-2000:]))
    stats = dict(re.findall(r"(\w+)=(\d+)", o))
    rows = int(stats.get("rows", 0))
    ctx.sample_lines(out, 1, maxlen=900)
    parts = split_at_pre(out, 30000 if quick else 40000, ctx.work, "hm")
    for i, p in enumerate(parts):
        validate(ctx, sd, p, "trace_hm_%d" % i)
    if not quick:
        binding_demo(ctx, sd, parts[0])
        # the same accessors compiled without debug assertions (release profile)
        exe_rel = ctx.build("d_header", release=True)
        out_rel = os.path.join(ctx.work, "header_rel.ndjson")
        rc, o = ctx.run([exe_rel, "header", "--out", out_rel, "--level", "0", "--hist", "300",
                         "--hlen", "60", "--seqlen", "2"], timeout=900)
        if rc != 0:
            if rc < 0 and rc != -9:
                ctx.violation("header:driver-killed:release", "release driver terminated by "
                              "signal %d while calling the accessors: %s" % (-rc, o[-500:]))
                return
            raise vf.ToolError("d_header header (release) failed: rc=%s\n%s" % (rc, o[-2000:]))
        rel = dict(re.findall(r"(\w+)=(\d+)", o))
        rows += int(rel.get("rows", 0))
        ctx.cov["driver_release"] = {k: int(v) for k, v in rel.items()}
        for i, p in enumerate(split_at_pre(out_rel, 40000, ctx.work, "hmrel")):
            validate(ctx, sd, p, "trace_hmrel_%d" % i)
    ctx.cov["rows"] = rows
    ctx.cov["driver"] = {k: int(v) for k, v in stats.items()}
    ctx.cov["exhaustive"] = True
    ctx.cov["distinct_nontrivial"] = rows
    ctx.cov["rule"] = (
        "every row is one call of a real accessor on a window whose neighbouring bytes are "
        "non-zero in 3 of 4 backgrounds; grid = all 1..7-bit specs at every shift of %s header "
        "bytes + all aligned 8/16/32/64-bit specs in -128..127, x backgrounds {00,FF,A5,random} "
        "(quick: random + one other) x {load, load_atomic, store, store_atomic, compare_exchange "
        "(expected = current / other), fetch_add/sub/and/or, fetch_update with 4 closure kinds} x "
        "value classes {0,1,max,alternating,random} x masks {none, all-but-low-2-bits, random%s}; "
        "seq = all sequences of 2 calls out of 40 (10 per field) over three fields sharing a byte "
        "and the byte itself%s; hist = random histories on a persistent window"
        % ("3" if quick else "all 32", "" if quick else ", all-ones, 0x0f..",
           "" if quick else ", and all sequences of 3 calls out of 20"))
    ctx.assumptions.append("single-threaded calls with SeqCst orderings; values fit the field; "
                           "compare_exchange arguments lie inside the mask")
    ctx.assumptions.append("field-equal arguments ('expected = current') are obtained with the "
                           "real load_atomic accessor; the specification alone decides whether "
                           "the compare_exchange must succeed")
