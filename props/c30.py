"""C30 — mmap chunk states only move Unmapped -> Quarantined -> Mapped.
Spec: spec/mmapper/Mmapper.tla (recorded state + OS mapping state per chunk; actions Quarantine,
EnsureMapped, VMMap (the VM maps memory itself), MarkAsMapped on arbitrary address ranges;
Monotone / Frame action properties, ReachedRequested / MappedIsRW / QuarantinedIsReserved
invariants; the "overlapping chunks" of a range are defined twice (declaratively and the way the
code rounds) and shown to coincide). Three mutant configurations must be rejected.
Binding: `d_layout mmapper` drives a private, real ChunkStateMmapper (hook VerifMmapper) through
the Mmapper trait on an address window owned by the driver, placed across / next to / inside a
slab of the two-level state table, with ranges that are chunk-unaligned at both ends. After every
call it logs the recorded state of every chunk of the window (plus a guard chunk on each side),
is_mapped_address at three offsets of every chunk, and a read/write probe of both ends of every
chunk; Trace_Mmapper.tla validates every row."""
import json
import os
import re
import threading
from concurrent.futures import ThreadPoolExecutor
import vf

META = {
    "level": "model_checking",
    "text": "TLC checks on all call sequences over a 4-chunk window (6 chunks in the thorough "
            "tier) with 2-3 address units per chunk that chunk states never regress, every chunk "
            "overlapping a requested range reaches the requested state, no other chunk changes, "
            "Mapped chunks are readable/writable and that the code's rounding equals 'overlapping "
            "chunks'; three broken variants are rejected. The real ChunkStateMmapper is then run "
            "on every call sequence up to length 3 (4 thorough) over all chunk ranges of small "
            "windows straddling / touching / inside a 32 GB slab of the two-level table, with "
            "unaligned range ends, plus random histories on a 14-chunk window; TLC validates the "
            "recorded states, is_mapped_address samples and read/write probes of every call. "
            "Exhaustive small scope + random is the right level for a sequential state table "
            "under one lock.",
    "note": "Trusted: TLC, the VerifMmapper hook (calls the Mmapper trait methods of a private "
            "instance; state accessor), the driver's pipe-based access probe. Not covered: "
            "quarantine_address_range_anywhere/_preferred (OS-chosen addresses), huge pages, "
            "mmap failures, concurrent callers (calls are serialised by transition_lock), "
            "ByteMapStateStorage (32-bit targets only), zero-length ranges.",
    "technique": "TLA+ spec (Mmapper.tla) model-checked with TLC; recorded histories of the real "
                 "code validated row by row with TLC (Trace_Mmapper.tla)",
}
SPEC_DIR = "mmapper"
TRACE_SPEC = ("Trace_Mmapper.tla", "Trace_Mmapper_n6.cfg")
WHAT = "real ChunkStateMmapper deviates from Mmapper.tla"


def _cfg(n):
    return "Trace_Mmapper_n%d.cfg" % n


def keyfn(row):
    """Finding key of a rejected row: what kind of call, and the first observable that is off
    (computed only to classify; the verdict is TLC's)."""
    if row.get("ev") == "Crash":
        return "mmapper:crash:%s:%s" % (row.get("k"), re.sub(r"0x[0-9a-f]+|\d+", "#", row.get("msg", ""))[:60])
    if row.get("ev") == "Hang":
        return "mmapper:hang"
    if row.get("ev") == "VmMapFailed":
        return "mmapper:K:unmapped-chunk-not-free"
    if row.get("ev") != "Op":
        return "mmapper:row:%s" % row.get("ev")
    if not row.get("ok", True):
        return "mmapper:%s:error-result" % row["k"]
    return "mmapper:%s:state-or-probe" % row["k"]


def _history_of(lines, n):
    """Full history of the row at 1-based line n of a depth-structured trace: the last Reset row,
    the most recent rows of depth 1..d-1 (or every row since the Reset for d = 0) and the row."""
    row = json.loads(lines[n - 1])
    d = row.get("d", 0)
    out = [lines[n - 1]]
    need = d - 1 if d > 0 else None
    i = n - 2
    while i >= 0:
        r = json.loads(lines[i])
        if r.get("ev") == "Reset":
            out.append(lines[i])
            break
        if need is None:
            out.append(lines[i])
        elif need >= 1 and r.get("d") == need:
            out.append(lines[i])
            need -= 1
        i -= 1
    return list(reversed(out))


_tls = threading.local()
_lock = threading.Lock()


def _patch_violation(ctx):
    """Make the replay file of a rejected row hold the row's complete history (Reset row, the rows
    of depth 1..d-1 it extends, the row) instead of the bare row. Trace validations of one check
    run in parallel threads: the trace being validated is thread-local."""
    orig = ctx.violation

    def violation(key, what, replay_src=None, extra=None):
        lines = getattr(_tls, "lines", None)
        m = re.search(r"first at line (\d+)", what or "")
        with _lock:
            if m and lines:
                tmp = os.path.join(ctx.work, "history_%s.ndjson" % re.sub(r"\W+", "_", key)[:80])
                with open(tmp, "w") as f:
                    f.write("\n".join(_history_of(lines, int(m.group(1)))) + "\n")
                replay_src = tmp
            return orig(key, what, replay_src, extra)

    ctx.violation = violation


def _validate(ctx, sd, module, cfg, path, name):
    """ctx.tlc_trace, but (a) the replay file of a violation holds the complete history of the
    first rejected row instead of the bare row, (b) PRECOND_FAILED (a call outside the documented
    preconditions = harness error) is a tool error."""
    lines = open(path).read().splitlines()
    _tls.lines = lines
    r = ctx.tlc_trace(module, cfg, path, spec_dir=sd, name=name, key="mmapper:trace", what=WHAT,
                      ntraces=sum(1 for x in lines if '"ev":"Op"' in x[:12]), keyfn=keyfn)
    log = open(os.path.join(ctx.work, "tlc_%s.log" % name)).read()
    if "PRECOND_FAILED" in log and r.get("rejected_rows", 0) == 0:
        raise vf.ToolError("harness error: %s" % re.search(r"PRECOND_FAILED.*", log).group(0)[:300])
    return r


def _drive(ctx, exe, out, args):
    rc, o = ctx.run([exe, "mmapper", "--out", out] + [str(a) for a in args], timeout=1500)
    if rc != 0:
        if rc < 0 and rc != -9:
            # killed by a signal (e.g. SIGSEGV while probing a chunk recorded as Mapped)
            ctx.violation("mmapper:driver-signal:%d" % -rc,
                          "driver killed by signal %d while exercising the mmapper (args %s)" % (-rc, args))
            return 0
        raise vf.ToolError("d_layout mmapper failed: rc=%s\n%s" % (rc, o[-2000:]))
    m = re.search(r"rows=(\d+)", o)
    return int(m.group(1)) if m else 0


def run(ctx):
    sd = os.path.join(vf.SPEC, SPEC_DIR)
    # VERIF_LAYOUT_EXE: use a driver built elsewhere (mutation experiments on a scratch copy of
    # /repo, so that other people's builds never see the mutation)
    exe = os.environ.get("VERIF_LAYOUT_EXE") or ctx.build("d_layout")
    quick = ctx.tier == "quick"
    acts = ["Quarantine", "EnsureMapped", "VMMap", "MarkAsMapped"]
    ctx.tlc_mc("Mmapper.tla", "MC_Mmapper.cfg", spec_dir=sd, require_actions=acts)
    if not quick:
        ctx.tlc_mc("Mmapper.tla", "MC_Mmapper_big.cfg", spec_dir=sd, require_actions=acts, timeout=1500)
    for mut in (("regress", "cover") if quick else ("regress", "cover", "norw")):
        ctx.tlc_mc("Mmapper.tla", "MC_Mmapper_mutant_%s.cfg" % mut, spec_dir=sd, expect_violation=True)

    allp = "straddle,interior,slabstart,slabend"
    # (name, window chunks incl. 2 guards, driver args)
    if quick:
        plan = [
            ("t5", 5, ["--mode", "tree", "--n", 5, "--depth", 3, "--places", "straddle"]),
            ("t6", 6, ["--mode", "tree", "--n", 6, "--depth", 2, "--places", "straddle,slabend"]),
            ("a8", 8, ["--mode", "tree", "--n", 8, "--depth", 1, "--variants", 7,
                       "--places", "interior,slabstart"]),
            ("r16", 16, ["--mode", "random", "--n", 16, "--hist", 120, "--maxlen", 14,
                         "--places", "straddle,interior"]),
        ]
    else:
        plan = [("t5s%d" % i, 5, ["--mode", "tree", "--n", 5, "--depth", 4, "--places", "straddle",
                                 "--shard", "%d/3" % i]) for i in range(3)]
        plan += [
            ("t5o", 5, ["--mode", "tree", "--n", 5, "--depth", 3, "--places", "interior,slabstart,slabend"]),
            ("t6a", 6, ["--mode", "tree", "--n", 6, "--depth", 3, "--places", "straddle,slabend"]),
            ("t6b", 6, ["--mode", "tree", "--n", 6, "--depth", 2, "--places", "interior,slabstart"]),
            ("t8", 8, ["--mode", "tree", "--n", 8, "--depth", 2, "--places", allp]),
            ("a8", 8, ["--mode", "tree", "--n", 8, "--depth", 1, "--variants", 7, "--places", allp]),
            ("r16", 16, ["--mode", "random", "--n", 16, "--hist", 800, "--maxlen", 16, "--places", allp]),
            ("r8", 8, ["--mode", "random", "--n", 8, "--hist", 800, "--maxlen", 10, "--places", allp]),
        ]
    _patch_violation(ctx)
    # traces of the same window size are concatenated (each starts with its own Reset row) so that
    # one TLC run validates them; up to 3 independent driver+TLC pipelines run in parallel
    groups = {}
    for name, n, args in plan:
        g = name if not quick else "n%d" % n
        groups.setdefault(g, []).append((name, n, args))

    def pipeline(g):
        rows = 0
        merged = os.path.join(ctx.work, "mm_%s.ndjson" % g)
        parts = []
        for name, n, args in groups[g]:
            out = os.path.join(ctx.work, "mm_part_%s.ndjson" % name)
            if os.path.exists(out):
                os.remove(out)
            rows += _drive(ctx, exe, out, args)
            if os.path.exists(out):
                parts.append(out)
        with open(merged, "w") as w:
            for p in parts:
                with open(p) as f:
                    w.write(f.read())
                os.remove(p)
        if parts:
            _validate(ctx, sd, "Trace_Mmapper.tla", _cfg(groups[g][0][1]), merged, "mm_" + g)
        return rows

    with ThreadPoolExecutor(max_workers=3) as ex:
        total = sum(ex.map(pipeline, list(groups)))
    g0 = list(groups)[0]
    first = (os.path.join(ctx.work, "mm_%s.ndjson" % g0), groups[g0][0][1])
    ctx.sample_lines(first[0], 3)
    ctx.cov["rows"] = total
    ctx.cov["distinct_nontrivial"] = _nontrivial(ctx, plan)
    if not quick:
        _binding_demo(ctx, sd, first)
    ctx.cov["exhaustive"] = True
    ctx.cov["rule"] = (
        "tree runs: every sequence of quarantine / ensure_mapped / mark_as_mapped calls up to the "
        "stated depth over all chunk ranges [a,b] of the non-guard chunks of the window (calls "
        "outside the documented preconditions are skipped), each on a fresh mmapper and a freshly "
        "unmapped window, one row per call; range ends are page-unaligned (byte-unaligned for "
        "mark_as_mapped) except in the aligned variants; placements: window straddling a slab "
        "boundary, inside a slab, starting at a slab start, ending at a slab end. random runs: "
        "seeded histories on 8/16-chunk windows. distinct_nontrivial = rows whose call changed "
        "the state of at least one chunk while leaving another chunk of its range unchanged "
        "(mixed-state ranges).")
    ctx.assumptions += [
        "the driver owns the window: nothing else maps memory there (checked with a "
        "MAP_FIXED_NOREPLACE reservation before the run), so no mmap of the mmapper may fail",
        "mark_as_mapped is only called on chunks the driver mapped itself or the mmapper mapped "
        "(never on Quarantined chunks: the documented graph has no such edge); quarantine is only "
        "called on ranges without Quarantined chunks (the code panics otherwise)",
        "zero-length ranges are not generated (the code rounds an unaligned empty range to one "
        "chunk, the documentation to none)",
    ]


def _nontrivial(ctx, plan):
    n = 0
    import glob
    for p in sorted(glob.glob(os.path.join(ctx.work, "mm_*.ndjson"))):
        if "demo" in p or "part" in p:
            continue
        stack = {}
        cur = 0
        for line in open(p):
            r = json.loads(line)
            if r.get("ev") == "Reset":
                stack = {0: [0] * r["n"]}
                cur = 0
                cb = r["cb"]
                continue
            if r.get("ev") != "Op":
                continue
            d = r["d"] if r["d"] > 0 else cur + 1
            pre = stack.get(d - 1)
            stack[d] = r["st"]
            cur = d
            if pre is None:
                continue
            cs = range(r["start"] // cb, (r["start"] + r["len"] + cb - 1) // cb)
            ch = [pre[c] != r["st"][c] for c in cs if c < len(pre)]
            if any(ch) and not all(ch):
                n += 1
    return n


def _binding_demo(ctx, sd, first):
    """Thorough tier: corrupt one logged field of an accepted trace and confirm that the trace
    specification rejects exactly that row (the binding is not vacuous)."""
    path, n = first
    lines = open(path).read().splitlines()
    idx = next(i for i, l in enumerate(lines) if i > 20 and '"ev":"Op"' in l[:12])
    r = json.loads(lines[idx])
    r["st"][1] = (r["st"][1] + 1) % 3
    lines[idx] = json.dumps(r, separators=(",", ":"))
    bad = os.path.join(ctx.work, "mm_demo_corrupt.ndjson")
    with open(bad, "w") as f:
        f.write("\n".join(lines[:2000]) + "\n")
    rc, out, _ = ctx._tlc(sd, "Trace_Mmapper.tla", _cfg(n), "mm_demo", 1, 600, jvm=vf.TRACE_JVM,
                          env={"TRACE": bad})
    hit = re.findall(r"ROW_REJECTED l=(\d+)", out)
    if str(idx + 1) not in hit:
        raise vf.ToolError("binding demonstration failed: corrupted row %d not rejected (%s)" % (idx + 1, hit))
    ctx.cov["binding_demo"] = "corrupted field st[1] of line %d: rejected rows %s" % (idx + 1, sorted(set(hit)))


def replay(ctx, path):
    lines = open(path).read().splitlines()
    print("replay header:", lines[0][:2000])
    body = lines[1:]
    n = json.loads(body[0])["n"]
    tmp = os.path.join(ctx.work, "replay.ndjson")
    with open(tmp, "w") as f:
        f.write("\n".join(body) + "\n")
    sd = os.path.join(vf.SPEC, SPEC_DIR)
    rc, out, _ = ctx._tlc(sd, "Trace_Mmapper.tla", _cfg(n), "replay", 1, 900, jvm=vf.TRACE_JVM,
                          env={"TRACE": tmp})
    bad = sorted({int(x) for x in re.findall(r"ROW_REJECTED l=(\d+)", out)})
    for b in bad:
        print("rejected row (line %d of the replay body): %s" % (b, body[b - 1][:1500]))
    print("replay result:", "REJECTED" if bad else "accepted", "rows:", len(body))
    return 1 if bad else 0
