"""Shared machinery of the "space" family (C24, C28, C31): gcdrive runs (real MMTk under the ShadowVM
binding), projection of the recorded trace onto the events a specification consumes (a fixed filter
on the event name, nothing is computed), TLC trace validation in parallel, finding keys."""
import concurrent.futures as cf
import json
import os
import re

import vf
from props import heapcommon as hc

PLANS = hc.PLANS
PR_EVENTS = ("Spaces", "PRAcquire", "PRRelease", "PRRangeRelease", "ChunksAlloc", "ChunksFree",
             "ChunksFreeAll", "PRCounters", "Crash")
LOOKUP_EVENTS = ("Spaces", "PRAcquire", "PRRelease", "PRRangeRelease", "ChunksAlloc", "ChunksFree",
                 "ChunksFreeAll", "Lookup", "Crash")


class SRun(hc.Run):
    """A gcdrive run of this family: heapcommon.Run plus an environment (VM layout)."""

    def __init__(self, plan, layout="", **kw):
        super().__init__(plan, **kw)
        self.layout = layout

    @property
    def label(self):
        return "%s-%s-%s%s" % (self.plan, "+".join(self.feats) or "default", self.name,
                               "-" + self.layout if self.layout else "")

    def env(self, ctx):
        e = {"VERIF_SEED": str(ctx.seed * 100 + self.seed_off)}
        if self.layout:
            e["SHADOW_VM_LAYOUT"] = self.layout
        return e


def project(src, dst, events):
    """Keep the lines whose event name is in `events` (fixed projection; torn last lines dropped)."""
    pats = tuple('{"ev":"%s"' % e for e in events)
    n = 0
    with open(src, errors="replace") as f, open(dst, "w") as o:
        for line in f:
            if line.startswith(pats) and line.rstrip().endswith("}"):
                o.write(line if line.endswith("\n") else line + "\n")
                n += 1
    return n


def crash_key(row, plan):
    loc = re.sub(r":\d+$", "", re.sub(r"^(/.*)?/repo/", "", row.get("loc", "")))
    msg = re.sub(r"0x[0-9a-fA-F]+|\d+", "#", row.get("msg", ""))[:80]
    return "crash:%s:%s:%s" % (plan, loc, msg)


def _binary_matches(ctx, exe, feats):
    """The harness target directory is shared by all checks: a concurrent build of another feature
    set can replace target/debug/gcdrive between `cargo build` and vf's copy. Ask the binary itself
    (layout mode reports the compiled-in features; placement variants only exist with `placements`)."""
    out = os.path.join(ctx.work, "probe_%d.ndjson" % os.getpid())
    variant = "4" if "placements" in feats else "0"
    rc, o = ctx.run([exe, "--plan", "NoGC", "--variant", variant, "--heap", "64", "--mode", "layout",
                     "--out", out], timeout=120)
    if rc != 0 or not os.path.exists(out):
        return False
    want = {f for f in feats if f != "placements"}
    for line in open(out):
        if line.startswith('{"ev":"Layout"'):
            have = set(filter(None, json.loads(line).get("features", "").split("+")))
            return want == have
    return False


def build_all(ctx, runs):
    exes = {}
    for fs, rel in sorted({(r.feats, r.release) for r in runs}):
        for attempt in range(4):
            exe = ctx.build("gcdrive", features=list(fs), release=rel)
            if _binary_matches(ctx, exe, fs):
                break
            vf.log("binary %s does not carry features %s (concurrent build in the shared target "
                   "directory?), rebuilding" % (exe, list(fs)))
        else:
            raise vf.ToolError("could not obtain a gcdrive binary with features %s" % list(fs))
        exes[(fs, rel)] = exe
    return exes


def run_all(ctx, runs, exes, events, par=6, timeout=600):
    """Run every configuration, append a Crash line for a process that died without logging one,
    project the trace. Returns [(run, projected path, raw path)]."""
    outdir = os.path.join(ctx.work, "traces")
    os.makedirs(outdir, exist_ok=True)

    def one(r):
        raw = os.path.join(outdir, r.label + ".raw.ndjson")
        out = os.path.join(outdir, r.label + ".ndjson")
        for p in (raw, out):
            if os.path.exists(p):
                os.remove(p)
        rc, o = ctx.run(r.argv(exes[(r.feats, r.release)], raw), timeout=timeout, env=r.env(ctx))
        if not os.path.exists(raw):
            raise vf.ToolError("gcdrive produced no trace for %s: rc=%s %s" % (r.label, rc, o[-1500:]))
        n = project(raw, out, events)
        tail = open(out).read()[-4000:]
        if rc != 0 and '{"ev":"Crash"' not in tail:
            what = "hang (no progress within the time limit)" if rc == -9 else "process died rc=%s" % rc
            with open(out, "a") as f:
                f.write(json.dumps({"ev": "Crash", "msg": what + " " + re.sub(r"[^\x20-\x7e]", " ", o[-300:]),
                                    "loc": "process", "th": -1}, separators=(",", ":")) + "\n")
        if n == 0:
            raise vf.ToolError("no event of this family in the trace of %s" % r.label)
        return r, out, raw

    with cf.ThreadPoolExecutor(par) as ex:
        return list(ex.map(one, runs))


def report_extra_tags(ctx, log, out, kf, what, known_key=None):
    """vf.tlc_trace classifies one tag per rejected line; a line can fail several guards (e.g. the
    counters of two spaces in one PRCounters event): classify the others here, so that a known
    finding never hides a different one on the same line."""
    first, extra = {}, []
    for n, t in re.findall(r'ROW_REJECTED l=(\d+) tag=([^\s"]+)', log):
        if int(n) not in first:
            first[int(n)] = t
        elif t != first[int(n)] and (int(n), t) not in extra:
            extra.append((int(n), t))
    if not extra:
        return
    lines = open(out).read().splitlines()
    seen = set()
    for n, t in extra:
        row = json.loads(lines[n - 1]) if 0 < n <= len(lines) else {}
        row["_tag"], row["_line"] = t, n
        k = known_key or kf(row)
        if k is None or k in seen:
            continue
        seen.add(k)
        ctx.violation(k, "%s (line %d of %s)" % (what, n, os.path.basename(out)), out,
                      extra=lines[n - 1][:1500])


def validate_all(ctx, items, spec_dir, module, cfg, keyfn_of, what, stats_tag, par=6, timeout=1200):
    """TLC-validate every projected trace; returns the summed `<stats_tag> [k |-> v, ..]` records."""
    total = {}

    def one(item):
        r, out, _raw = item
        res = ctx.tlc_trace(module, cfg, out, spec_dir=spec_dir, name="t_" + r.label,
                            keyfn=keyfn_of(r), replay_whole=True, key=r.known_key,
                            what="%s (%s)" % (what, r.label), timeout=timeout)
        log = open(os.path.join(ctx.work, "tlc_t_%s.log" % r.label)).read()
        report_extra_tags(ctx, log, out, keyfn_of(r), '%s (%s)' % (what, r.label), r.known_key)
        st = {}
        m = re.search(stats_tag + r" \[(.*?)\]", log)
        if m:
            for kv in m.group(1).split(","):
                k, v = kv.split("|->")
                st[k.strip()] = int(v.strip())
        return r, res, st

    with cf.ThreadPoolExecutor(par) as ex:
        for r, res, st in ex.map(one, items):
            for k, v in st.items():
                total[k] = total.get(k, 0) + v
            total["events"] = total.get("events", 0) + res["events"]
            total["runs"] = total.get("runs", 0) + 1
    return total


def binding_demo(ctx, spec_dir, module, cfg, src, name, mutate, expect_tag):
    """Vacuity control of the binding (DESIGN.md section 7): corrupt an accepted trace with `mutate`
    (list of lines -> list of lines) and confirm that the trace specification rejects it with
    `expect_tag`. Recorded in the evidence; a corrupted trace that is accepted is a tool error."""
    lines = open(src).read().splitlines()
    new = mutate(lines)
    if new is None:
        return None
    path = os.path.join(ctx.work, "demo_%s.ndjson" % name)
    with open(path, "w") as f:
        f.write("\n".join(new) + "\n")
    rc, out, wall = ctx._tlc(spec_dir, module, cfg, "demo_" + name, 1, 900, jvm=vf.TRACE_JVM,
                             env={"TRACE": os.path.abspath(path)})
    tags = set(re.findall(r'ROW_REJECTED l=\d+ tag=([^\s"]+)', out))
    ok = any(t.startswith(expect_tag) for t in tags)
    ctx.cov.setdefault("binding_demo", []).append(
        {"name": name, "expected": expect_tag, "rejected_with": sorted(tags)[:6], "ok": ok})
    if not ok:
        raise vf.ToolError("binding demonstration %s: the corrupted trace was not rejected with %s "
                           "(got %s)" % (name, expect_tag, sorted(tags)))
    return ok


def mc_parallel(ctx, spec_dir, module, jobs, par=4):
    """Run several TLC model-checking jobs side by side: jobs = [(cfg, kwargs)]."""
    def one(job):
        cfg, kw = job
        return ctx.tlc_mc(module, cfg, spec_dir=spec_dir, **kw)
    with cf.ThreadPoolExecutor(par) as ex:
        return list(ex.map(one, jobs))
