"""C10 — out-of-memory and allocation-option contract."""
import os
import vf
from props import heapcommon as hc

SPEC_DIR = "allocopts"
TRACE_SPEC = ("Trace_AllocOpts.tla", "Trace_AllocOpts.cfg")
SD = os.path.join(vf.SPEC, SPEC_DIR)
META = {
    "level": "model_checking",
    "text": "AllocOpts.tla models one allocation call the way alloc_slow_inline / Space::acquire are "
            "written (obvious-OOM test, poll, get pages or fail, block only at a safepoint, retry, "
            "emergency collection, out_of_memory callback) and TLC checks the contract for all "
            "option combinations x request classes x environment choices, with five mutants "
            "(OOM before any collection, allow_oom_call ignored, blocking off a safepoint, obvious-OOM test against the wrong bound, "
            "overcommit polling) that must be rejected. Conformance: under every plan the driver "
            "keeps 2/8..5/8 of a small heap alive and issues 13 request sizes (64 B .. usize::MAX, "
            "around the LOS threshold and the heap size) x 8 option combinations through "
            "alloc_with_options, with fixed and with dynamic heap sizes (first round on the still "
            "minimal heap: requests between the current and the maximum size); TLC evaluates the same Contract on the callbacks observed "
            "between each call and its return (block_for_gc, collections, out_of_memory, result).",
    "note": "Trusted: TLC, ShadowVM callbacks as the observation of blocking/collections/OOM. "
            "'Overcommit does not block or fail' is required of requests <= heap/8 only (MMTk "
            "reserves 2 x heap of address space per space; larger overcommitted requests may "
            "physically fail). NoGC: only requests that cannot fill the heap (documented panic).",
    "technique": "TLA+ spec (AllocOpts.tla) model-checked with TLC incl. 5 mutants; recorded "
                 "allocation calls of the real MMTk validated with TLC (Trace_AllocOpts.tla)",
}
PREFIXES = ("C10:",)


def run(ctx):
    ctx.tlc_mc("AllocOpts.tla", "MC_AllocOpts.cfg", spec_dir=SD, workers=2,
               require_actions=["ObviousOOM", "Success", "NeedGC", "AfterFailure"])
    for m in ("oom_before_gc", "ignore_allow_oom", "block_no_safepoint", "overcommit_polls",
              "obvious_oom_wrong_bound"):
        ctx.tlc_mc("AllocOpts.tla", "MC_AllocOpts_mutant_%s.cfg" % m, spec_dir=SD, workers=2,
                   expect_violation=True)
    st = hc.execute(ctx, hc.oom_matrix(ctx.tier), PREFIXES,
                    spec=("Trace_AllocOpts.tla", "Trace_AllocOpts.cfg", SD))
    ctx.cov.update({"driver": st})
    ctx.cov["rule"] = ("one trace = one process per plan; each OptCall..OptRet pair is one judged "
                       "call (13 sizes x 8 option combinations x rounds with different live fractions)")
