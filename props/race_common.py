"""Shared parts of the race-family checks (C17, C18, C19): running the racedrive sub-commands
(a crash or hang of the code under test is a violation, not a tool error), parallel TLC trace
validation, trace statistics, and the binding demonstration (a corrupted copy of an accepted trace
must be rejected by the trace specification)."""
import concurrent.futures as cf
import json
import os
import re
import subprocess

import vf

JVM_ENV = {"JAVA_TOOL_OPTIONS": "-XX:ParallelGCThreads=2"}


def drive(ctx, exe, argv, out, what, timeout=300):
    """Run one racedrive sub-command. Returns True if a trace file was written."""
    if os.path.exists(out):
        os.remove(out)
    rc, o = ctx.run([exe] + argv + ["--out", out], timeout=timeout)
    tail = (o or "")[-1500:]
    key_base = "%s:%s" % (what, ":".join(a for a in argv if not a.startswith("--") and not a.isdigit()))
    if rc == 0 and os.path.exists(out):
        m = re.findall(r"^(?:fwd|cas|pool): .*$", o or "", re.M)
        if m:
            vf.log(m[-1])
        return True
    if rc == -9:
        ctx.violation(key_base + ":hang",
                      "the racing threads did not finish within %d s (a spin / retry loop of the code "
                      "under test never terminates?)" % timeout, None, extra=tail)
        return False
    if rc == 3:
        ctx.violation(key_base + ":accessor-layout",
                      "store_atomic through the metadata spec does not change the documented byte / "
                      "bits of the field (racedrive self-check)", None, extra=tail)
        return False
    if rc in (101, 134, -6, -11, 139):
        msg = re.findall(r"panicked at .*|PANIC.*|assertion .*", o or "")
        ctx.violation(key_base + ":crash",
                      "the code under test panicked / crashed while racing: %s" % (msg[:2] or tail[-300:]),
                      None, extra=tail)
        return False
    raise vf.ToolError("racedrive %s failed: rc=%s\n%s" % (" ".join(argv), rc, tail))


def nrows(path, ev):
    pat = '"ev":"%s"' % ev
    return sum(1 for l in open(path) if pat in l[:40])


def stats(path):
    """The driver's own Stats trailer row (counts, never judgements)."""
    last = None
    for l in open(path):
        if '"ev":"Stats"' in l[:20]:
            last = json.loads(l)
    return last or {}


def split_rows(path, parts, outdir, prefix, header_ev=None, interleave=False):
    """Split a file of self-contained rows into `parts` files (a header row, if any, is repeated).
    `interleave` deals the rows round-robin (expensive rows are clustered at the end of a file)."""
    lines = open(path).read().splitlines()
    header = []
    if header_ev and lines and ('"ev":"%s"' % header_ev) in lines[0][:40]:
        header, lines = [lines[0]], lines[1:]
    if interleave:
        chunks = [lines[i::parts] for i in range(parts)]
    else:
        per = max(1, -(-len(lines) // parts))
        chunks = [lines[i:i + per] for i in range(0, len(lines), per)]
    out = []
    for c in chunks:
        if not c:
            continue
        p = os.path.join(outdir, "%s_%d.ndjson" % (prefix, len(out)))
        with open(p, "w") as f:
            f.write("\n".join(header + c) + "\n")
        out.append(p)
    return out


def validate_parallel(ctx, jobs, jobs_at_once=3):
    """jobs: list of dict(module, cfg, trace, spec_dir, keyfn, what, ntraces, name). TLC processes run
    `jobs_at_once` at a time, one worker each."""
    def one(j):
        return ctx.tlc_trace(j["module"], j["cfg"], j["trace"], spec_dir=j["spec_dir"], name=j["name"],
                             key=j.get("key"), keyfn=j.get("keyfn"), what=j.get("what"),
                             ntraces=j.get("ntraces"), env=JVM_ENV, timeout=j.get("timeout", 1500))
    with cf.ThreadPoolExecutor(max_workers=jobs_at_once) as ex:
        return list(ex.map(one, jobs))


def rejected_rows(ctx, spec_dir, module, cfg, trace, name):
    """Run a trace specification on `trace` outside the bookkeeping of the check and return the
    set of rejected line numbers (used for the binding demonstration only)."""
    meta = os.path.join(ctx.work, "tlc", name)
    os.makedirs(meta, exist_ok=True)
    cmd = ["java", "-XX:+UseParallelGC", "-Xmx3g"] + vf.TRACE_JVM + [
        "-cp", vf.JARS, "tlc2.TLC", "-metadir", meta, "-cleanup", "-noGenerateSpecTE", "-workers", "1",
        "-config", cfg, module]
    env = dict(os.environ)
    env.pop("JAVA_TOOL_OPTIONS", None)
    env["TRACE"] = os.path.abspath(trace)
    p = subprocess.run(cmd, cwd=spec_dir, env=env, stdout=subprocess.PIPE, stderr=subprocess.STDOUT,
                       text=True, timeout=900, errors="replace")
    if "Model checking completed" not in p.stdout and "ROW_REJECTED" not in p.stdout:
        raise vf.ToolError("binding demonstration: TLC failed on %s\n%s" % (trace, p.stdout[-2000:]))
    return {int(n) for n in re.findall(r"ROW_REJECTED l=(\d+)", p.stdout)}


def binding_demo(ctx, spec_dir, module, cfg, trace, ev, corrupt, name, limit=60):
    """Take up to `limit` rows of an accepted trace, corrupt each with `corrupt(row) -> row or None`
    and require that the trace specification rejects every corrupted row."""
    rows, header = [], None
    for l in open(trace):
        if not l.strip():
            continue
        r = json.loads(l)
        if r.get("ev") == "Cfg":
            header = l.strip()
        elif r.get("ev") == ev and len(rows) < limit:
            c = corrupt(r)
            if c is not None:
                rows.append(json.dumps(c, separators=(",", ":")))
    if not rows:
        raise vf.ToolError("binding demonstration: no row of %s could be corrupted" % trace)
    path = os.path.join(ctx.work, name + ".ndjson")
    with open(path, "w") as f:
        f.write("\n".join(([header] if header else []) + rows) + "\n")
    bad = rejected_rows(ctx, spec_dir, module, cfg, path, name)
    want = set(range(2 if header else 1, len(rows) + (2 if header else 1)))
    missed = sorted(want - bad)
    ctx.cov.setdefault("binding_demo", []).append(
        {"name": name, "corrupted_rows": len(rows), "rejected": len(bad & want)})
    if missed:
        raise vf.ToolError("binding demonstration %s: the trace specification ACCEPTED corrupted rows "
                           "(lines %s of %s): the binding is too weak" % (name, missed[:10], path))
    vf.log("binding demonstration %s: %d corrupted rows, all rejected" % (name, len(rows)))


def require_taken(ctx, name, actions):
    """-coverage 1 vacuity control for specifications whose actions TLC splits per constant
    quantifier value (lines `<Act line .. of module M (a b c d)>: distinct:taken`, which
    vf.tlc_mc(require_actions=..) does not parse): every listed action must have been taken."""
    log = open(os.path.join(ctx.work, "tlc_%s.log" % name)).read()
    taken = {}
    for a, d, t in re.findall(r"^<(\w+) line [^>]*>: (\d+):(\d+)", log, re.M):
        taken[a] = taken.get(a, 0) + int(t)
    for a in actions:
        if taken.get(a, 0) == 0:
            raise vf.ToolError("action %s never taken in %s (vacuous model)" % (a, name))
    for run in ctx.cov["mc_runs"]:
        if run.get("name") == name and not run.get("actions"):
            run["actions"] = {a: t for a, t in taken.items() if a != "Init"}
    return taken
