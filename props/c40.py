"""C40 — revisitable group-by partitions its input into maximal runs.
Spec: spec/revgroup/RevGroup.tla (declarative property + constructive definition, TLC shows they
coincide for all key sequences up to MaxLen and that a broken grouping is rejected).
Binding: compdrive revgroup calls the real iterator (hook verif_groups) on all sequences over
{0,1,2} up to a length, 4 key functions, 4 consumption modes (+ random long inputs); every row is
validated by Trace_RevGroup."""
import os
import vf

META = {
    "level": "model_checking",
    "text": "TLC proves on all key sequences up to length 7 over 3 symbols that the constructive "
            "maximal-run grouping is the unique grouping satisfying the property (and rejects a "
            "broken grouping); the real iterator is then run on every sequence over {0,1,2} up to "
            "length 6 (8 thorough) x 4 key functions x 4 consumption patterns plus random inputs, "
            "and TLC validates every recorded call against the specification. Exhaustive "
            "small-scope + random is the right level for a pure iterator adaptor.",
    "note": "Trusted: TLC, the 50-line hook verif_groups that calls the crate-private iterator, "
            "the harness JSON writer. Inputs longer than 40 items are not explored.",
    "technique": "TLA+ spec (RevGroup.tla) checked with TLC; recorded calls of the real code "
                 "validated row by row with TLC (Trace_RevGroup.tla)",
}
SPEC_DIR = "revgroup"
TRACE_SPEC = ("Trace_RevGroup.tla", "Trace_RevGroup.cfg")


def run(ctx):
    sd = os.path.join(vf.SPEC, SPEC_DIR)
    exe = ctx.build("compdrive")
    ctx.tlc_mc("RevGroup.tla", "MC_RevGroup.cfg", spec_dir=sd, require_actions=["Extend"])
    ctx.tlc_mc("RevGroup.tla", "MC_RevGroup_mutant.cfg", spec_dir=sd, expect_violation=True)
    maxlen = 6 if ctx.tier == "quick" else 8
    nrand = 500 if ctx.tier == "quick" else 20000
    out = os.path.join(ctx.work, "revgroup.ndjson")
    rc, o = ctx.run([exe, "revgroup", "--out", out, "--maxlen", str(maxlen), "--random", str(nrand)])
    if rc != 0:
        raise vf.ToolError("compdrive revgroup failed: rc=%s\n%s" % (rc, o[-2000:]))
    rows = sum(1 for _ in open(out))
    ctx.sample_lines(out, 2)
    parts = vf.split_ndjson(out, 1 if ctx.tier == "quick" else 8, ctx.work, "rg", boundary_ev="RG")
    for p in parts:
        ctx.tlc_trace(TRACE_SPEC[0], TRACE_SPEC[1], p, spec_dir=sd, key="revgroup:row",
                      what="real revisitable_group_by output is not the maximal-run partition",
                      ntraces=sum(1 for _ in open(p)))
    ctx.cov["rows"] = rows
    ctx.cov["exhaustive"] = True
    ctx.cov["rule"] = ("all symbol sequences over {0,1,2} of length <= %d x 4 key functions x "
                       "(3 consumption modes + every flatten split), plus %d random inputs of "
                       "length <= 40; each row is one call of the real iterator" % (maxlen, nrand))
    ctx.assumptions.append("hook verif_groups calls the crate-private iterator exactly as "
                           "two_level_storage/csm do (iter().revisitable_group_by(key))")
