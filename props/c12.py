"""C12 — ConcurrentImmix preserves the snapshot at the beginning.
Spec: spec/satb/SATB.tla (tri-colour marking, object-logging deletion barrier, allocate-as-live).
Binding: gcdrive --mode satb (harness/gcdrive/src/modes_satb.rs): the mutator performs hiding
patterns through the real SATB barrier while concurrent marking is held / running; traces validated
with TLC against spec/satb/Trace_SATB.tla (EXTENDS HeapTrace)."""
import os
import re

import vf
from props import heapcommon as hc

SPEC_DIR = "satb"
TRACE_SPEC = ("Trace_SATB.tla", "Trace_SATB.cfg")
SD = os.path.join(vf.SPEC, SPEC_DIR)
META = {
    "level": "model_checking",
    "text": "Design level: SATB.tla models ConcurrentImmix's cycle - InitialMark (roots loaded as "
            "nodes, unlog bits bulk set, allocate-as-live on), concurrent MarkStep (pop, mark, scan) "
            "interleaved with mutator steps (reference write = test the source's unlog bit / push "
            "every field of the source / clear the bit / store; Alloc; Load into a root; DropRoot; "
            "buffer Flush) and FinalMark (flush all buffers, finish the closure without re-scanning "
            "roots, sweep, bulk clear). TLC checks SnapshotKept (at the end of FinalMark every "
            "object reachable at InitialMark and every object allocated since is marked) and "
            "NoDangling for all interleavings over 3 objects (thorough: 4 objects; 2 fields; two "
            "mutators with a four-step write) and rejects six broken variants (barrier records the "
            "new value, no allocate-as-live, log bit cleared before the fields are recorded, SATB "
            "buffers not flushed at FinalMark, barrier tests the target, fast-path test inverted). "
            "Conformance: a directed driver builds an old object graph under the real "
            "ConcurrentImmix, allocates until MMTk starts a concurrent collection, holds the "
            "concurrent marking packets at their first instruction (sync_point gate with a time "
            "limit; all four mutators are bound so that queued root packets keep the Concurrent "
            "bucket non-empty and large allocations do not end the cycle) while the mutator "
            "allocates large objects and performs the classic hiding patterns through the real "
            "barrier (load a reference into a root and clear the field, move it into an object "
            "allocated during marking, cut a chain above a kept object, swap children, publish new "
            "objects only through old ones, array copies), then lets marking race with a second "
            "batch, waits for FinalMark and churns the heap - several complete cycles per program, "
            "objects allocated during marking staying reachable across them - and finally forces "
            "a full collection. TLC "
            "validates each write against SATB!Write (first write to a snapshot object finds the "
            "bit set; slow path pushes every old field value of the source and clears the bit), the "
            "flushes, and at FinalMark requires (vo_bit builds) that the InitialMark reachable set "
            "and everything allocated since are still valid objects for MMTk; HeapTrace's graph "
            "checks run at every pause and after the churn.",
    "note": "Trusted: TLC; ShadowVM binding, heap walker, add-only hooks (reporting only). "
            "Survival of objects that became unreachable during marking is only observable through "
            "MMTK::enumerate_objects (vo_bit builds); default builds check the graph at every pause "
            "and after a heap churn. Schedules: the gate makes the 'marker has not scanned anything "
            "yet' interleaving certain and the OS + seeded jitter vary the rest; all interleavings "
            "are covered at design level only. NonMoving semantics under ConcurrentImmix is a "
            "recorded C01 finding and is not used here. In vo_bit builds the recorded "
            "enumerate-invalid finding ends the validation of a program at its first FinalMark "
            "(after the C12 guards of that pause), so those runs use one or two cycles per "
            "program; default builds validate every pause of programs with 4-8 cycles.",
    "technique": "TLA+ spec (SATB.tla) model-checked with TLC incl. 6 mutants; traces of real "
                 "concurrent collections with a gated marker validated with TLC (Trace_SATB.tla "
                 "EXTENDS HeapTrace)",
}
PREFIXES = ("C12:", "C01:", "C02:", "C04:", "C07:", "C36:")
MY_EVENTS = {"SATBSlow", "SATBPush", "SATBFlush", "PauseEnd", "PauseStart", "ConcTrace", "RegionCopy",
             "MarkingStarted", "LargeDuringMarking", "GateOpen", "MutationsDone", "SatbEnd"}
# For other checks that want to run the concurrent-marking mode (e.g. C36): call prepare(), take
# satb_runs(tier) and validate with hc.execute(ctx, runs, prefixes, spec=SATB_SPEC).
SATB_SPEC = ("Trace_SATB.tla", "Trace_SATB.cfg", SD)


def prepare():
    """Make heapcommon keep the events Trace_SATB consumes when it projects a process trace."""
    hc.HEAP_EVENTS |= MY_EVENTS


def satb_runs(tier, seed_base=0):
    """The gcdrive --mode satb runs of this tier (heapcommon.Run objects, plan ConcurrentImmix)."""
    runs = matrix(tier)
    for r in runs:
        r.seed_off += seed_base
    return runs


QUICK_MUTANTS = ["records_new_value", "no_allocate_live", "log_before_record", "no_final_flush"]
ALL_MUTANTS = QUICK_MUTANTS + ["tests_target", "test_inverted"]
ACTIONS = ["Alloc", "Write", "Load", "DropRoot", "Flush", "InitialMark", "MarkStep", "FinalMark"]
ACTIONS_STEPS = ["Alloc", "WriteBegin", "BarrierTest", "BarrierRecord", "BarrierLog", "WriteStore",
                 "Load", "DropRoot", "Flush", "InitialMark", "MarkStep", "FinalMark"]


def satb_run(name, feats=(), workers=3, programs=2, ops=40, heap=12, seed_off=0, opts="",
             sems="0,0,0,2,1", release=False, mutators=2, rounds=4):
    """One process: `programs` programs of `rounds` complete concurrent cycles each (objects -
    large ones in particular - allocated while marking is in progress stay reachable over the
    following cycles of the program), `ops` mutations per cycle."""
    return hc.Run("ConcurrentImmix", feats=feats, name=name, workers=workers, mutators=mutators,
                  heap=heap, programs=programs, ops=ops, sems=sems, opts=opts,
                  extra=["--mode", "satb", "--rounds", str(rounds)], seed_off=seed_off,
                  release=release)


def matrix(tier):
    if tier == "quick":
        return [satb_run("satb", programs=2, ops=40, rounds=4),
                satb_run("satb-w1", workers=1, programs=1, ops=40, seed_off=1, mutators=1, rounds=5),
                satb_run("satb-vo", feats=["vo_bit"], programs=3, ops=50, seed_off=2, rounds=2)]
    runs = []
    for i, w in enumerate([1, 2, 3, 4, 6, 8]):
        runs.append(satb_run("satb-w%d" % w, workers=w, programs=4, ops=60, seed_off=i,
                             mutators=1 + i % 2, rounds=4 + i % 3))
        runs.append(satb_run("satb-vo-w%d" % w, feats=["vo_bit"], workers=w, programs=8, ops=60,
                             seed_off=10 + i, mutators=1 + (i + 1) % 2, rounds=1 + i % 2))
    runs.append(satb_run("satb-h16", heap=16, programs=3, ops=80, seed_off=20, rounds=5))
    runs.append(satb_run("satb-h8", heap=8, programs=4, ops=40, seed_off=21, rounds=4))
    runs.append(satb_run("satb-vo-h16", feats=["vo_bit"], heap=16, programs=6, ops=80, seed_off=22, rounds=1))
    runs.append(satb_run("satb-rel", programs=5, ops=60, seed_off=23, release=True, rounds=5))
    runs.append(satb_run("satb-vo-rel", feats=["vo_bit"], programs=10, ops=60, seed_off=24, release=True,
                         rounds=1))
    runs.append(satb_run("satb-sb", feats=["immix_smaller_block"], programs=4, ops=50, seed_off=25))
    runs.append(satb_run("satb-vo-sb", feats=["immix_smaller_block", "vo_bit"], programs=8, ops=50,
                         seed_off=26, rounds=1))
    runs.append(satb_run("satb-ixnm", feats=["immix_non_moving"], programs=3, ops=50, seed_off=27))
    runs.append(satb_run("satb-stress", programs=3, ops=50, seed_off=28, opts="stress_factor=1048576"))
    runs.append(satb_run("satb-long", programs=2, ops=150, seed_off=29, heap=12, rounds=8))
    runs.append(satb_run("satb-nolos", programs=3, ops=60, seed_off=30, sems="0,0,1"))
    return runs


def satb_stats(ctx, runs):
    tot = {}
    for r in runs:
        p = os.path.join(ctx.work, "tlc_t_%s.log" % r.label)
        if not os.path.exists(p):
            continue
        m = re.search(r"SATB_STATS \[(.*?)\]", open(p, errors="replace").read())
        if m:
            for kv in m.group(1).split(","):
                k, v = kv.split("|->")
                tot[k.strip()] = tot.get(k.strip(), 0) + int(v.strip())
    return tot


def binding_demo(ctx, runs):
    """Vacuity control of the binding (thorough): corrupt an accepted vo_bit trace and confirm
    that the trace specification rejects each corruption with a C12 tag."""
    r = next(x for x in runs if "vo_bit" in x.feats)
    lines = open(os.path.join(ctx.work, "traces", r.label + ".ndjson")).read().splitlines()
    variants = {}
    i = next((i for i, l in enumerate(lines) if l.startswith('{"ev":"SATBPush"')), None)
    if i is not None:
        variants["drop-SATBPush"] = lines[:i] + lines[i + 1:]
    # remove one snapshot object from the ids MMTk enumerates at the first FinalMark
    fm = next((i for i, l in enumerate(lines) if l.startswith('{"ev":"PauseEnd"') and "FinalMark" in l), None)
    im = next((i for i, l in enumerate(lines) if l.startswith('{"ev":"PauseEnd"') and "InitialMark" in l), None)
    if fm is not None and im is not None and im < fm:
        import json
        g0 = json.loads(lines[im + 1])
        g1 = json.loads(lines[fm + 1])
        if g0.get("ev") == "GCEnd" and g1.get("ev") == "GCEnd" and g0["nodes"] and "enum" in g1:
            victim = g0["nodes"][-1]["id"]
            g1["enum"] = [x for x in g1["enum"] if x != victim]
            variants["snapshot-object-not-enumerated"] = (
                lines[:fm + 1] + [json.dumps(g1, separators=(",", ":"))] + lines[fm + 2:])
    res = {}
    for name, ls in variants.items():
        p = os.path.join(ctx.work, "demo_%s.ndjson" % name)
        with open(p, "w") as f:
            f.write("\n".join(ls) + "\n")
        rc, out, _ = ctx._tlc(SD, "Trace_SATB.tla", "Trace_SATB.cfg", "demo_" + name, 1, 900,
                              jvm=vf.TRACE_JVM, env={"TRACE": p})
        tags = sorted(set(t for t in re.findall(r"ROW_REJECTED l=\d+ tag=([^\s\"]+)", out)
                          if t.startswith("C12:")))
        res[name] = tags
        if not tags:
            raise vf.ToolError("binding demonstration: corrupted trace %s was accepted" % name)
    return res


def run(ctx):
    prepare()
    quick = ctx.tier == "quick"
    ctx.tlc_mc("SATB.tla", "MC_SATB.cfg", spec_dir=SD, workers=4, timeout=1500,
               require_actions=ACTIONS)
    if not quick:
        ctx.tlc_mc("SATB.tla", "MC_SATB_2mut.cfg", spec_dir=SD, workers=4, timeout=3000,
                   require_actions=ACTIONS_STEPS)
        ctx.tlc_mc("SATB.tla", "MC_SATB_4obj.cfg", spec_dir=SD, workers=4, timeout=3000,
                   require_actions=ACTIONS)
    for m in (QUICK_MUTANTS if quick else ALL_MUTANTS):
        ctx.tlc_mc("SATB.tla", "MC_SATB_mutant_%s.cfg" % m, spec_dir=SD, workers=2,
                   expect_violation=True, timeout=900)
    runs = matrix(ctx.tier)
    st = hc.execute(ctx, runs, PREFIXES, par_run=3, par_tlc=4,
                    spec=("Trace_SATB.tla", "Trace_SATB.cfg", SD))
    ctx.cov.update({"driver": st, "satb": satb_stats(ctx, runs)})
    if not quick:
        ctx.cov["binding_demonstration"] = binding_demo(ctx, runs)
    ctx.cov["rule"] = ("one trace = one gcdrive --mode satb process; satb.cycles = concurrent "
                       "collections (InitialMark..FinalMark) observed, writesInMarking / "
                       "slowInMarking = reference writes / barrier slow paths while marking was in "
                       "progress, markPacketsWhileMutating = concurrent marking packets started "
                       "between InitialMark and FinalMark; non-trivial = traces with cycles > 0 "
                       "and slowInMarking > 0")
