"""C21 — bulk side-metadata zero/set/copy touch exactly the covered regions.
Spec: spec/sidemeta/SideMetaBulk.tla. Part 1: the meaning of bzero/bset/bcopy on memory dumps
(fields of regions inside the range are set to zeros / ones / the source field, fields outside are
unchanged, the at most two partially covered regions of an unaligned range are unconstrained).
Part 2 (model checked): translating the region range to (byte, bit) positions, breaking it with
break_bit_range and updating each piece with a mask or memset/memcpy has exactly that meaning for
every range of the window; three broken variants are rejected.
Binding: harness/d_sidemeta c21 calls the real bzero_metadata / bset_metadata /
bcopy_metadata_contiguous on custom spec pairs and logs the raw bytes of the window (destination and
source) before and after; Trace_SideMetaBulk.tla judges every call."""
import os
import vf
from props import sidemeta_util as su

META = {
    "level": "model_checking",
    "text": "TLC checks for every region range [rs, re) of a 3..6-byte window, widths 1/2/4/16, "
            "three operations and several memory contents that the implementation's decomposition "
            "(break_bit_range + byte masks + memset/memcpy) sets exactly the fields inside the "
            "range and nothing else; an inverted mask, a skipped first whole byte and an "
            "off-by-one end bit are rejected. The real functions are then called on custom specs "
            "of all widths and several region sizes for all range start/end pairs drawn from the "
            "region boundaries around a metadata word/page/chunk boundary (all pairs for small "
            "windows), aligned and unaligned to regions, and TLC validates the raw bytes of the "
            "window incl. 8 guard bytes on each side, for destination and source.",
    "note": "Trusted: TLC, the dump projection (re-checked in TLA+ on Map rows), raw memory reads. "
            "Ranges are limited to the dumped window (<= 48 metadata bytes + guards): multi-page "
            "memset lengths are not exercised. bcopy needs two specs, so the densest shape "
            "(ratio 1) is excluded for lack of address space. 32-bit chunked metadata is not "
            "compiled.",
    "technique": "TLA+ spec (SideMetaBulk.tla) model-checked with TLC incl. 3 mutants; recorded calls "
                 "of the real bulk functions validated row by row with TLC (Trace_SideMetaBulk.tla)",
}
SPEC_DIR = "sidemeta"
TRACE_SPEC = ("Trace_SideMetaBulk.tla", "Trace_SideMetaBulk.cfg")


def keyfn(row):
    ev = row.get("ev")
    if ev == "Crash":
        if row.get("what") == "driver process died":
            return "driver_died:lb%s:lr%s:%s" % (row.get("lb"), row.get("lr"), row.get("msg"))
        return "bulk_panic:%s:lb%s:%s" % (row.get("op"), row.get("lb"), row.get("msg", "")[:60])
    if ev == "Bulk":
        r = 1 << row.get("lr", 0)
        al = "aligned" if row["start"] % r == 0 and row["size"] % r == 0 else "unaligned"
        return "bulk:%s:lb%s:%s" % (row.get("op"), row.get("lb"), al)
    return "row:%s" % ev


def run(ctx):
    sd = su.spec_dir()
    thorough = ctx.tier == "thorough"
    exe = su.build(ctx)
    mcs = ["MC_SideMetaBulk_b1.cfg", "MC_SideMetaBulk_b4.cfg", "MC_SideMetaBulk_b16.cfg"]
    if thorough:
        mcs += ["MC_SideMetaBulk_b2.cfg", "MC_SideMetaBulk_b1_deep.cfg", "MC_SideMetaBulk_b2_deep.cfg"]
    for c in mcs:
        ctx.tlc_mc("SideMetaBulk.tla", c, spec_dir=sd, require_actions=["Bulk"])
    mutants = ["MC_SideMetaBulk_mutant_mask.cfg", "MC_SideMetaBulk_mutant_middle.cfg"]
    if thorough:
        mutants.append("MC_SideMetaBulk_mutant_endbit.cfg")
    for c in mutants:
        ctx.tlc_mc("SideMetaBulk.tla", c, spec_dir=sd, expect_violation=True)
    runs = [("debug", exe)]
    if thorough:
        runs.append(("release", su.build(ctx, release=True)))
    calls = 0
    for name, binp in runs:
        out = os.path.join(ctx.work, "c21_%s.ndjson" % name)
        summary = su.run_driver(ctx, binp, "c21", out, release=(name == "release"))
        total, n = su.count_rows(out, ["Bulk", "Map", "Crash"])
        calls += n["Bulk"]
        ctx.cov["driver_%s" % name] = {"summary": summary, "rows": total, "calls": n["Bulk"],
                                       "windows": n["Map"], "crash_rows": n["Crash"]}
        if name == "debug":
            ctx.sample_lines(out, 2, maxlen=700)
        parts = su.split_at_map(out, 4 if not thorough else 16, ctx.work, "c21_%s" % name)
        su.validate_parts(ctx, TRACE_SPEC[0], TRACE_SPEC[1], parts,
                          "real bulk metadata operation does not set exactly the fields of the "
                          "covered regions", keyfn, ["Bulk"])
        if thorough and name == "debug":
            def corrupt(rows):
                for i, r in enumerate(rows):
                    if r.get("ev") == "Bulk" and r["op"] == "bzero" and r["size"] > 0:
                        r["post"][0] ^= 1          # a guard bit outside every range changes
                        return i + 1
                return None
            su.corrupt_demo(ctx, TRACE_SPEC[0], TRACE_SPEC[1], parts[0], corrupt, "guard_bit")
    ctx.cov["exhaustive"] = True
    ctx.cov["distinct_nontrivial"] = calls
    ctx.cov["rule"] = ("one validated trace = one call of the real bzero/bset/bcopy with the raw "
                       "bytes of the destination (and source) window before and after; ranges: all "
                       "pairs of region boundaries of the window when it has <= %d regions, "
                       "otherwise all pairs of the boundaries within +-%d regions of the metadata "
                       "word/page/chunk boundary plus the window ends and random ones; plus ranges "
                       "that start/end inside a region; pre-state random/ones/zeros"
                       % ((64, 20) if thorough else (24, 9)))
    ctx.assumptions.append("unaligned ranges: the two partially covered regions are unconstrained "
                           "(the documentation does not say whether they are updated)")
