"""C11 — stop-the-world bracket: stop once, scan each mutator once, resume once"""
import os
import vf
from props import schedcommon as sc

SPEC_DIR = "scheduler"
TRACE_SPEC = ("Trace_Scheduler.tla", "Trace_Scheduler.cfg")
META = {
    "level": "model_checking",
    "text": 'Design level: Scheduler.tla: STWOnlyWhenStopped (packets of stop-the-world stages run only between stop_all_mutators and resume_mutators), WorldStoppedOnlyInGC, BlockedUntilEnd, AllClosedAtGCEnd; the mutant that opens the first STW stage before the mutators stopped must be rejected. Conformance: in every real pause of every plan: one StopEnter/StopExit before any root scan, STW packet or object scan; every bound mutator scanned exactly once per root-scan phase (mark-compact plans: a second phase in SecondRoots; ConcurrentImmix: none in FinalMark); exactly one resume_mutators, issued by the last parked worker with all STW buckets empty, no pending packet and no STW packet until the next stop; a blocked requester is released only after a resume that follows its block, and the request flag is clear when the mutators are resumed (a request made right after the pause is not elided); in whole-system runs a forced user request that overlaps a pending allocation-triggered request returns only after a collection has ended.',
    "note": 'Trusted: TLC; the add-only event hooks (emitted under WorkerMonitor::sync for lock-protected state, before enabling / after disabling lock-free operations); the ShadowVM binding. Schedules of real runs are those the OS produced (1..8 workers, loaded machine); all interleavings are covered only for the bounded models (N <= 3 workers). Sequential consistency is assumed; packet identity in traces is (type, stage) multisets.',
    "technique": "TLA+ spec (Scheduler.tla) model-checked with TLC incl. mutants; traces of the real "
                 "scheduler (hooks at every critical section / atomic step) validated with TLC against "
                 "Trace_Scheduler.tla, which replays them through the actions of Scheduler.tla",
}
# "a mutator that requested a GC is blocked until that GC has ended" presupposes that a request made
# after resume_mutators starts a collection: the request-eliding flag must be clear by then (the guard
# sits in the resume step of the trace spec and carries C14's tag; C11 claims it as well).
PREFIXES = ('C11:', 'C14:request-flag-not-cleared-during-gc')


def run(ctx):
    sc.design_mc(ctx, "C11", ["MC_Scheduler_small.cfg"], ["MC_Scheduler_conc.cfg"])
    st = sc.execute(ctx, sc.matrix(ctx.tier, "gc"), PREFIXES)
    # whole-system side: user requests that overlap a pending (allocation-triggered) request
    from props import heapcommon as hc
    wruns = [r for r in hc.cycle_matrix(ctx.tier) if "tryfirst" in r.name]
    if ctx.tier != "quick":
        wruns = wruns[:6]
    ctx.cov["overlapping_requests"] = hc.execute(ctx, wruns, PREFIXES)
    first = st.pop("_first_trace", None)
    if ctx.tier == "thorough" and first and not ctx.violations:
        sc.binding_demo(ctx, first)
    ctx.cov.update({"driver": st, "rule": sc.RULE, "plans": sc.PLANS})

