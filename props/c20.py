"""C20 — side metadata behaves as an array of independent fixed-width integers.
Spec: spec/sidemeta/SideMeta.tla. Part 1 defines the layout contract (one little-endian bit string,
field of region r at bits [r*b, r*b+b)) and the meaning of every accessor on bit strings (so 32/64
bit fields need no wide integers); part 2 is model checked: the byte-level shift/mask algebra of
global.rs refines the abstract array and agrees with the bit-string formulation; four broken
algebras are rejected.
Binding: harness/d_sidemeta c20 runs the real SideMetadataSpec accessors on custom specs (all
widths, several region sizes, windows placed on word/page/chunk boundaries and at the edge of the
mapped metadata) and logs the raw metadata bytes of the window plus guard fields before and after
every call; Trace_SideMeta.tla judges every call."""
import json
import os
import vf
from props import sidemeta_util as su

META = {
    "level": "model_checking",
    "text": "TLC checks exhaustively (all regions of a 2-byte window x all operand values x memory "
            "value classes, widths 1/2/4/8) that the shift/mask byte algebra used by the accessors "
            "implements 'only the addressed field changes, to the abstract new value, and the old "
            "field is returned', and that the bit-string formulation used on traces is the same "
            "function; 4 broken algebras are rejected. The real accessors are then run on custom "
            "specs of all 7 widths x up to 7 region sizes: every single operation x value class x "
            "neighbour pattern on the fields around a metadata word/page/chunk boundary, all "
            "short operation sequences over three neighbouring fields, random histories; TLC "
            "validates each call on the raw bytes of the window including guard fields. "
            "Exhaustive small-scope model + exhaustive/random conformance is the strongest level "
            "that makes sense for a pure data-layout property.",
    "note": "Trusted: TLC, the projection 'dump starts at spec_start + (dref >> ratio)' (re-checked "
            "in TLA+ on every Map row), the harness's raw memory reads. Single-threaded: atomicity "
            "under real races is C18's subject. Writes further than the guard band from the "
            "addressed field would not be seen. 32-bit (chunked local) layout is not compiled.",
    "technique": "TLA+ spec (SideMeta.tla) model-checked with TLC incl. 4 mutants; recorded calls of "
                 "the real accessors validated row by row with TLC (Trace_SideMeta.tla)",
}
SPEC_DIR = "sidemeta"
TRACE_SPEC = ("Trace_SideMeta.tla", "Trace_SideMeta.cfg")

SUB_BYTE_LOAD_PANIC = ("store_atomic", "set_zero_atomic", "cas", "fetch_add", "fetch_sub")


def keyfn(row):
    ev = row.get("ev")
    if ev == "Crash":
        if row.get("what") == "driver process died":
            return "driver_died:lb%s:lr%s:%s" % (row.get("lb"), row.get("lr"), row.get("msg"))
        msg = row.get("msg", "")
        if "there is no such thing as" in msg and row.get("lb", 9) < 3:
            return "accessor_panic:sub_byte:%s:%s" % (row.get("op"), row.get("o1"))
        return "accessor_panic:%s:lb%s:%s" % (row.get("op"), row.get("lb"), msg[:60])
    if ev == "Op":
        return "accessor:%s:lb%s" % (row.get("op"), row.get("lb"))
    return "row:%s" % ev


def run(ctx):
    sd = su.spec_dir()
    thorough = ctx.tier == "thorough"
    exe = su.build(ctx)
    # ---- design level ------------------------------------------------------------------
    mcs = ["MC_SideMeta_b1.cfg", "MC_SideMeta_b2.cfg", "MC_SideMeta_b4.cfg"]
    if thorough:
        mcs += ["MC_SideMeta_b8.cfg", "MC_SideMeta_b1_deep.cfg", "MC_SideMeta_b2_deep.cfg", "MC_SideMeta_b4_deep.cfg"]
    for c in mcs:
        ctx.tlc_mc("SideMeta.tla", c, spec_dir=sd, require_actions=["Call"])
    mutants = ["MC_SideMeta_mutant_noclear.cfg", "MC_SideMeta_mutant_shift.cfg"]
    if thorough:
        mutants += ["MC_SideMeta_mutant_andrhs.cfg", "MC_SideMeta_mutant_unmasked.cfg"]
    for c in mutants:
        ctx.tlc_mc("SideMeta.tla", c, spec_dir=sd, expect_violation=True)
    # ---- conformance -------------------------------------------------------------------
    runs = [("debug", exe)]
    if thorough:
        runs.append(("release", su.build(ctx, release=True)))
    total_ops = 0
    for name, binp in runs:
        out = os.path.join(ctx.work, "c20_%s.ndjson" % name)
        summary = su.run_driver(ctx, binp, "c20", out, release=(name == "release"))
        total, n = su.count_rows(out, ["Op", "Raw", "Map", "Crash"])
        total_ops += n["Op"]
        ctx.cov["driver_%s" % name] = {"summary": summary, "rows": total, "calls": n["Op"],
                                       "histories": n["Raw"], "windows": n["Map"],
                                       "crash_rows": n["Crash"]}
        if name == "debug":
            with open(out) as f:
                for i, line in enumerate(f):
                    if i in (0, 3, 40):
                        ctx.sample(line.strip()[:600])
        nparts = 4 if not thorough else 16
        parts = su.split_at_map(out, nparts, ctx.work, "c20_%s" % name)
        su.validate_parts(ctx, TRACE_SPEC[0], TRACE_SPEC[1], parts,
                          "real side metadata accessor call is not the abstract array operation "
                          "(field/neighbour/guard bytes or returned value differ)", keyfn, ["Op"])
        if thorough and name == "debug":
            def corrupt(rows):
                for i, r in enumerate(rows):
                    if r.get("ev") == "Op" and r["op"] == "fetch_add":
                        r["post"][len(r["post"]) - 1] ^= 0x10      # a guard byte changes
                        if i + 1 < len(rows) and rows[i + 1].get("ev") == "Op":
                            rows[i + 1]["pre"] = list(r["post"])
                        return i + 1
                return None
            su.corrupt_demo(ctx, TRACE_SPEC[0], TRACE_SPEC[1], parts[0], corrupt, "guard_byte")
    ctx.cov["exhaustive"] = True
    ctx.cov["distinct_nontrivial"] = total_ops
    ctx.cov["rule"] = ("one validated trace = one call of a real accessor with the window's raw "
                       "bytes before and after; windows: 2 guard + target fields around a metadata "
                       "word/page(/chunk) boundary and at the lower edge of the mapped metadata; "
                       "per target field: all 12 accessors x value classes {0,1,max,0xAA..,0x55..,"
                       "random} x neighbour patterns {zeros, ones, random}, CAS succeeding and "
                       "failing, 3-5 update closures, every ordering a Rust atomic accepts; all "
                       "operation sequences of length <= %d over 3 neighbouring fields (strided "
                       "when above the budget); random histories" % (3 if thorough else 2))
    ctx.assumptions.append("specs with fewer than two data bits per metadata bit are excluded (the "
                           "reserved address range cannot hold them; mmtk's own tests skip them)")
    ctx.assumptions.append("operands are < 2^bits for sub-byte specs (debug-asserted precondition)")
