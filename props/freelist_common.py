"""Shared parts of the free-list checks (C26, C27): spec directory, model-checking helper, parallel
trace validation against spec/freelist/Trace_FreeList.tla, finding keys, measured trace statistics,
binding demonstration."""
import collections
import concurrent.futures as cf
import json
import os
import re

import vf

SD = os.path.join(vf.SPEC, "freelist")
TRACE_SPEC = ("Trace_FreeList.tla", "Trace_FreeList.cfg")
JVM_ENV = {"JAVA_TOOL_OPTIONS": "-XX:ParallelGCThreads=2"}

# keys of the two recorded findings of C27 (see KNOWN_FINDINGS.json)
KEY_PARTIAL_BLOCK = "rm:Grow:limit-not-multiple-of-block:last-partial-block"
KEY_UNALIGNED_OLD = "rm:Grow:old-size-not-multiple-of-grain:remainder-unlinked"


def keyfn(row):
    """Finding key of a rejected row: list kind, call, which part the specification rejected
    (tag printed by Trace_FreeList: new/pre/result/nopost/post/crash). Growth rows are classified
    further by the input class, so that the recorded findings never mask another deviation."""
    p = row.get("p", {})
    op = row.get("op", {})
    kind, t, tag = p.get("kind", "?"), op.get("t", row.get("ev", "?")), row.get("_tag") or "?"
    if row.get("ev") == "Hang":
        return "%s:%s:hang" % (kind, t)     # the call did not return (driver watchdog)
    if t == "Grow" and kind == "rm" and tag in ("crash", "post"):
        c0, k = row.get("c0", 0), op.get("k", 0)
        new = c0 + k
        if new <= p["max"]:
            need_pages = -(-((new + p["heads"] + 1) * 8) // 4096)
            whole_blocks = (p["tp"] // p["ppb"]) * p["ppb"]
            if p["tp"] % p["ppb"] != 0 and need_pages > whole_blocks:
                # the growth needs the last, partial block of a table whose page count is not a
                # multiple of pages_per_block
                return KEY_PARTIAL_BLOCK
            if tag == "post" and c0 % p["grain"] != 0 and new > p["grain"]:
                # growth from a size that is not a multiple of the grain beyond the grain
                return KEY_UNALIGNED_OLD
    return "%s:%s:%s" % (kind, t, tag)


def mc(ctx, cfg, module="FreeList.tla", require=(), mutant=False, timeout=1500, workers=4):
    return ctx.tlc_mc(module, cfg, spec_dir=SD, expect_violation=mutant, require_actions=require,
                      env=JVM_ENV, timeout=timeout, workers=workers)


def split_even(path, parts, outdir, prefix):
    """Split a file of self-contained rows into `parts` files of equal length."""
    lines = open(path).read().splitlines()
    per = max(1, -(-len(lines) // parts))
    out = []
    for i in range(0, len(lines), per):
        p = os.path.join(outdir, "%s_%d.ndjson" % (prefix, len(out)))
        with open(p, "w") as f:
            f.write("\n".join(lines[i:i + per]) + "\n")
        out.append(p)
    return out


def histories(path):
    return sum(1 for l in open(path) if l.startswith('{"ev":"New"'))


def validate(ctx, files, what, whole, units, jobs=3, timeout=3000):
    """Validate trace files with TLC, `jobs` at a time. `units(path)` = number of validated units
    (rows or histories) a file stands for."""
    def one(p):
        return ctx.tlc_trace(TRACE_SPEC[0], TRACE_SPEC[1], p, spec_dir=SD, keyfn=keyfn, what=what,
                             ntraces=units(p), replay_whole=whole, env=JVM_ENV, timeout=timeout,
                             key="freelist:row")
    with cf.ThreadPoolExecutor(max_workers=jobs) as ex:
        return list(ex.map(one, files))


def stats(paths):
    """Measured content of the recorded traces (for the evidence file)."""
    c = collections.Counter()
    for path in paths:
        for line in open(path):
            try:
                r = json.loads(line)
            except ValueError:
                continue
            ev = r.get("ev")
            if ev == "New":
                c["histories"] += 1
                c["lists_%s" % r["p"]["kind"]] += 1
                if r["p"]["heads"] > 1:
                    c["lists_with_child_heads"] += 1
                continue
            if ev == "Crash":
                c["crash_rows"] += 1
                continue
            t = r["op"]["t"]
            c["calls_%s" % t] += 1
            if "pre" in r:
                c["self_contained_rows"] += 1
            if "post" in r:
                c["rows_with_observed_table"] += 1
            res = r.get("res")
            if t in ("Alloc", "AllocFrom"):
                c["%s_%s" % (t, "failed" if res == -1 else "succeeded")] += 1
            if t in ("Alloc", "AllocFrom", "Free") and r["op"]["h"] > 1:
                c["calls_through_child_head"] += 1
            if t == "Free" and r["op"]["rcs"] == 1:
                c["free_returning_coalesced_size"] += 1
            if t == "Grow":
                c["grow_%s" % ("ok" if res == 1 else "refused")] += 1
    return dict(c)


def binding_demo(ctx, accepted_file, name):
    """Corrupt one logged result of an accepted trace and confirm that the trace specification
    rejects exactly because of it (DESIGN section 7, 'not vacuous' item 3)."""
    lines = open(accepted_file).read().splitlines()
    idx = None
    for i, l in enumerate(lines):
        if '"t":"Alloc"' in l and '"res":-1' not in l and '"ev":"Step"' in l:
            idx = i
            break
    if idx is None:
        return None
    r = json.loads(lines[idx])
    r["res"] = 1000000          # no list in any trace has that many units
    lines[idx] = json.dumps(r, separators=(",", ":"))
    bad = os.path.join(ctx.work, "%s_corrupted.ndjson" % name)
    with open(bad, "w") as f:
        f.write("\n".join(lines[:idx + 200]) + "\n")
    rc, out, wall = ctx._tlc(SD, TRACE_SPEC[0], TRACE_SPEC[1], "demo_" + name, 1, 900,
                             jvm=vf.TRACE_JVM, env=dict(JVM_ENV, TRACE=bad))
    hit = [int(n) for n in re.findall(r"ROW_REJECTED l=(\d+)", out)]
    ok = (idx + 1) in hit
    if not ok:
        raise vf.ToolError("binding demonstration failed: a corrupted alloc result at line %d was "
                           "not rejected" % (idx + 1))
    return {"corrupted_line": idx + 1, "rejected": True}
