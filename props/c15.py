"""C15 — stop-the-world stages open in order; each packet runs exactly once"""
import os
import vf
from props import schedcommon as sc

SPEC_DIR = "scheduler"
TRACE_SPEC = ("Trace_Scheduler.tla", "Trace_Scheduler.cfg")
META = {
    "level": "model_checking",
    "text": "Design level: Scheduler.tla with update_buckets / schedule_sentinels / designated work modelled like the code: StageOrderOK (a sequential stage opens only with all workers parked, all earlier enabled stages open and empty, no local/designated work), OpenPrefix, AllClosedAtGCEnd, PacketConservation, PacketExactlyOnce, RunOnlyOpen; mutants (sentinel not taken, designated work ignored, all stages opened at once, disabled bucket blocks) must be rejected. Conformance: at every all-parked point the spec's open/enabled/designated state must equal the logged snapshot, the stages opened/closed by the real callback must be exactly those update_buckets of the spec opens on the snapshot, every packet start needs an unmatched earlier push of that type in an open bucket, and at resume nothing may be left.",
    "note": 'Trusted: TLC; the add-only event hooks (emitted under WorkerMonitor::sync for lock-protected state, before enabling / after disabling lock-free operations); the ShadowVM binding. Schedules of real runs are those the OS produced (1..8 workers, loaded machine); all interleavings are covered only for the bounded models (N <= 3 workers). Sequential consistency is assumed; packet identity in traces is (type, stage) multisets.',
    "technique": "TLA+ spec (Scheduler.tla) model-checked with TLC incl. mutants; traces of the real "
                 "scheduler (hooks at every critical section / atomic step) validated with TLC against "
                 "Trace_Scheduler.tla, which replays them through the actions of Scheduler.tla",
}
PREFIXES = ('C15:',)


def run(ctx):
    sc.design_mc(ctx, "C15", ["MC_Scheduler_small.cfg"], ["MC_Scheduler.cfg", "MC_Scheduler_conc.cfg"])
    st = sc.execute(ctx, sc.matrix(ctx.tier, "gc"), PREFIXES)
    first = st.pop("_first_trace", None)
    if ctx.tier == "thorough" and first and not ctx.violations:
        sc.binding_demo(ctx, first)
    ctx.cov.update({"driver": st, "rule": sc.RULE, "plans": sc.PLANS})

