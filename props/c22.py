"""C22 — side-metadata search and scan agree with a naive scan.
Spec: spec/sidemeta/SideMetaSearch.tla. Part 1: FindPrev / FindNext / Scan defined declaratively on
a memory dump (set of non-zero fields, byte range of the query). Part 2 (model checked): the
region-by-region loops (the repo's *_simple functions) compute exactly these values for every
bitmap of the window, every start address (aligned or not) and every limit; loops with an
off-by-one bound are rejected.
Binding: harness/d_sidemeta c22 writes bitmaps into a metadata window of a custom spec (raw bytes,
logged), asks the real find_prev_non_zero_value / find_next_non_zero_value / scan_non_zero_values
many questions and logs the answers; Trace_SideMetaSearch.tla judges every answer. Debug builds
(the implementation's own fast-vs-simple cross-check is active; its failure is a Crash row) and, in
the thorough tier, release builds (only this oracle)."""
import os
import vf
from props import sidemeta_util as su

META = {
    "level": "model_checking",
    "text": "TLC checks for all 256 contents of an 8-region (1-bit) and 4-region (2-bit) bitmap, "
            "16-bit fields with high-byte-only values, every start address incl. unaligned ones "
            "and every limit that the region-by-region loops return exactly the declaratively "
            "defined answer (and that answers are non-zero regions inside the byte range); "
            "off-by-one loop bounds are rejected. The real functions are then queried on custom "
            "specs of all widths/several region sizes: bitmaps with 0, 1, 2 set fields around a "
            "metadata word/page/chunk boundary and at both edges of the mapped metadata, random "
            "sparse/dense bitmaps, field values with only the top bit set; start addresses "
            "aligned/unaligned, inside/above the window and in unmapped data; limits of 1, a "
            "region, up to and beyond the window and the mapped memory. TLC validates each "
            "answer against the dumped bytes.",
    "note": "Trusted: TLC, the dump projection (re-checked in TLA+ on Map rows), raw memory reads and "
            "writes of the harness, 'metadata outside the dumped window is zero' (the harness only "
            "writes inside it). The harness keeps MMTk's invariant that mapped data has mapped "
            "metadata and maps data as one interval: holes inside a search range are not explored. "
            "Scan ranges stay inside mapped data (documented precondition). 32-bit chunked "
            "metadata is not compiled.",
    "technique": "TLA+ spec (SideMetaSearch.tla) model-checked with TLC incl. 2 mutants; recorded "
                 "answers of the real search/scan functions validated with TLC "
                 "(Trace_SideMetaSearch.tla)",
}
SPEC_DIR = "sidemeta"
TRACE_SPEC = ("Trace_SideMetaSearch.tla", "Trace_SideMetaSearch.cfg")


def small_region(row):
    return row.get("lb", 9) <= 3 and row.get("lr", 0) < row.get("lb", 0)


def keyfn(row):
    ev = row.get("ev")
    lb, lr = row.get("lb"), row.get("lr")
    if ev == "Crash":
        if row.get("what") == "driver process died":
            return "driver_died:lb%s:lr%s:%s" % (lb, lr, row.get("msg"))
        msg = row.get("msg", "")
        if "subtract with overflow" in msg and small_region(row):
            return "search:region_smaller_than_field_bits:meta_to_data_address"
        if row.get("q") == "find_prev" and row.get("cls") == "small" and "naive implementation" in msg:
            return "find_prev:limit_inside_start_region:fast!=simple"
        return "search_panic:%s:%s:lb%s:lr%s:%s" % (row.get("q"), row.get("cls"), lb, lr, msg[:60])
    if ev in ("FP", "FN") and small_region(row):
        # release builds: the same address computation wraps instead of panicking
        return "search:region_smaller_than_field_bits:meta_to_data_address"
    if ev == "SCU":
        r = 1 << (lr or 0)
        res = row.get("res", [])
        if lb and res and all(x % r == row["s"] % r for x in res):
            return "scan:unaligned_start:visits_unaligned_addresses"
        return "scan:unaligned_start:lb%s" % lb
    return {"FP": "find_prev", "FPU": "find_prev:small_limit", "FN": "find_next",
            "SC": "scan"}.get(ev, "row:%s" % ev) + ":lb%s:lr%s" % (lb, lr)


def run(ctx):
    sd = su.spec_dir()
    thorough = ctx.tier == "thorough"
    exe = su.build(ctx)
    mcs = ["MC_SideMetaSearch_b1.cfg", "MC_SideMetaSearch_b2.cfg", "MC_SideMetaSearch_b16.cfg"]
    if thorough:
        mcs.append("MC_SideMetaSearch_b1_deep.cfg")
    for c in mcs:
        ctx.tlc_mc("SideMetaSearch.tla", c, spec_dir=sd, require_actions=["SetByte"])
    for c in ["MC_SideMetaSearch_mutant_prev.cfg", "MC_SideMetaSearch_mutant_next.cfg"]:
        ctx.tlc_mc("SideMetaSearch.tla", c, spec_dir=sd, expect_violation=True)
    runs = [("debug", exe)]
    if thorough:
        runs.append(("release", su.build(ctx, release=True)))
    judged = ["FP", "FPU", "FN", "SC", "SCU"]
    nq = 0
    for name, binp in runs:
        out = os.path.join(ctx.work, "c22_%s.ndjson" % name)
        summary = su.run_driver(ctx, binp, "c22", out, release=(name == "release"))
        total, n = su.count_rows(out, judged + ["Set", "Map", "Crash"])
        queries = 0
        with open(out) as f:
            for line in f:
                if line.startswith('{"ev":"F'):
                    queries += line.count("],[") + 1
                elif line.startswith('{"ev":"SC'):
                    queries += 1
        nq += queries
        ctx.cov["driver_%s" % name] = {"summary": summary, "rows": total, "bitmaps": n["Set"],
                                       "windows": n["Map"], "query_rows": sum(n[e] for e in judged),
                                       "queries": queries, "crash_rows": n["Crash"]}
        if name == "debug":
            with open(out) as f:
                for i, line in enumerate(f):
                    if i in (1, 2, 6):
                        ctx.sample(line.strip()[:700])
        parts = su.split_at_map(out, 4 if not thorough else 16, ctx.work, "c22_%s" % name)
        su.validate_parts(ctx, TRACE_SPEC[0], TRACE_SPEC[1], parts,
                          "real search/scan answer differs from the region-by-region scan of the "
                          "dumped metadata", keyfn, judged)
        if thorough and name == "debug":
            def corrupt(rows):
                for i, r in enumerate(rows):
                    if r.get("ev") == "FN" and any(q[2] >= 0 for q in r["qs"]):
                        for q in r["qs"]:
                            if q[2] >= 0:
                                q[2] += 1 << r["lr"]        # the next region instead
                                return i + 1
                return None
            su.corrupt_demo(ctx, TRACE_SPEC[0], TRACE_SPEC[1], parts[0], corrupt, "next_region")
    ctx.cov["exhaustive"] = False
    ctx.cov["distinct_nontrivial"] = nq
    ctx.cov["rule"] = ("one validated trace = one query row (a batch of find_prev or find_next "
                       "queries, or one scan) against one logged bitmap; `queries` counts the "
                       "individual questions. Bitmaps per window: empty, single set field at every "
                       "position near the boundary and at the ends, pairs, random sparse/dense/"
                       "ones; windows: metadata word/page/chunk boundary, lower and upper edge of "
                       "the mapped metadata")
    ctx.assumptions.append("find_prev with a limit that ends inside the region of an unaligned "
                           "start address: None and the start region are both accepted (the "
                           "documentation and the region loop disagree)")
    ctx.assumptions.append("a search starting in unmapped data may return None without searching")
